import AvroModel.Props.C07
import AvroModel.Lemmas.Crash
/-!
# C08 — A truncated file yields a prefix of its records and an error

Model: `AvroModel/File.lean`; valid files as in `Props/C07.lean`. For a valid file
`f = hdr ++ body H.sync bl` and every cut position `k ≤ f.length` (the file a writer leaves behind
when it dies after `k` bytes) `truncation` gives the exact behaviour of the reader on `f.take k`.

The boundary, decided from the code (file.go:177-208): a block's records are handed to the
callback as soon as its *payload* is completely present (`io.ReadFull` of the payload succeeded),
before the 16-byte sync marker is read. So with `payloadEnd i` the absolute position just after
block `i`'s payload and `blockEnd i` the position just after its sync marker:

* delivered = the records of exactly the blocks with `payloadEnd i ≤ k` (`completeVals`), in order,
  each one whole — a prefix of the file's records (`truncation_prefix`);
* the result is success iff `k` is the end of the header or some `blockEnd i` (`boundaries`);
  every other cut is an error — in particular `payloadEnd i ≤ k < blockEnd i` delivers block `i`
  and then reports an error.

The compressor enters only through `decompress (compress x) = ok x` on *complete* payloads
(`GoodBlk.decomp`): an incomplete payload fails in `io.ReadFull` before the decompressor is reached.
-/
namespace Avro.C08
open Avro Avro.File

variable {α ε : Type}

/-- **C08 (truncation)**: reading the first `k` bytes of a valid file delivers exactly the records of
the blocks whose payload ends at or before `k`, and returns success iff `k` is the end of the
header or of a block; every other cut position is an error. -/
theorem truncation {X : Ext α} {fuel : Nat} {hdr : Bytes} {H : Header} {sel : CodecSel} {rc : RecCodec α} {bl : List (Blk α)}
    (hv : ValidFile X fuel hdr H sel rc bl) (cb : Nat → Option ε) (hcb : ∀ i, cb i = none)
    (k : Nat) (hk : k ≤ (hdr ++ body H.sync bl).length) :
    (readFile X fuel cb ((hdr ++ body H.sync bl).take k)).delivered = completeVals H.sync hdr.length bl k ∧
    (k ∈ boundaries H.sync hdr.length bl → (readFile X fuel cb ((hdr ++ body H.sync bl).take k)).res = .ok) ∧
    (k ∉ boundaries H.sync hdr.length bl → ∃ e, (readFile X fuel cb ((hdr ++ body H.sync bl).take k)).res = .err e) := by
  by_cases hlt : k < hdr.length
  · -- the cut falls inside the header
    obtain ⟨e, he⟩ := readFile_header_cut hv.toValidHeader cb k hlt
    rw [take_append_lt hlt, he]
    have hnb : k ∉ boundaries H.sync hdr.length bl := fun h => by
      have := boundaries_ge H.sync bl _ _ h; omega
    refine ⟨?_, fun h => absurd h hnb, fun _ => ⟨e, rfl⟩⟩
    rw [completeVals_before H.sync bl hdr.length k (by omega)]
  · have hge : hdr.length ≤ k := by omega
    rw [take_append_ge hge, readFile_header hv.toValidHeader cb]
    have hcut := readBlocks_cut (cfgOf X sel rc H cb) hv.sync16 hcb bl fuel 0 (k - hdr.length) hv.blocks hv.fuel
    have heq := cutOut_eq H.sync hv.sync16 bl hdr.length k hge (by simpa using hk)
    simp only [cfgOf] at hcut ⊢
    refine ⟨by rw [hcut.1, heq.1], ?_, ?_⟩
    · intro hb
      have := heq.2.mpr hb
      simpa [this] using hcut.2
    · intro hnb
      have : (cutOut H.sync bl (k - hdr.length)).2 = false := by
        cases h : (cutOut H.sync bl (k - hdr.length)).2 with
        | true => exact absurd (heq.2.mp h) hnb
        | false => rfl
      simpa [this] using hcut.2

/-- **C08 (prefix, nothing partial or invented)**: what a truncated file delivers is a prefix of the
records of the whole file. -/
theorem truncation_prefix {X : Ext α} {fuel : Nat} {hdr : Bytes} {H : Header} {sel : CodecSel} {rc : RecCodec α} {bl : List (Blk α)}
    (hv : ValidFile X fuel hdr H sel rc bl) (cb : Nat → Option ε) (hcb : ∀ i, cb i = none)
    (k : Nat) (hk : k ≤ (hdr ++ body H.sync bl).length) :
    (readFile X fuel cb ((hdr ++ body H.sync bl).take k)).delivered <+: allVals bl := by
  rw [(truncation hv cb hcb k hk).1]
  by_cases hlt : k < hdr.length
  · rw [completeVals_before H.sync bl hdr.length k (by omega)]; exact List.nil_prefix
  · rw [← (cutOut_eq H.sync hv.sync16 bl hdr.length k (by omega) (by simpa using hk)).1]
    exact cutOut_prefix _ _ _

/-- **C08 (success only at boundaries)**: success is reported iff the cut is the end of the header or of a block. -/
theorem ok_iff_boundary {X : Ext α} {fuel : Nat} {hdr : Bytes} {H : Header} {sel : CodecSel} {rc : RecCodec α} {bl : List (Blk α)}
    (hv : ValidFile X fuel hdr H sel rc bl) (cb : Nat → Option ε) (hcb : ∀ i, cb i = none)
    (k : Nat) (hk : k ≤ (hdr ++ body H.sync bl).length) :
    (readFile X fuel cb ((hdr ++ body H.sync bl).take k)).res = .ok ↔ k ∈ boundaries H.sync hdr.length bl := by
  obtain ⟨_, h1, h2⟩ := truncation hv cb hcb k hk
  constructor
  · intro hok
    apply Classical.byContradiction
    intro hnb
    obtain ⟨e, he⟩ := h2 hnb
    rw [he] at hok; cases hok
  · exact h1

/-- The whole file is its own last boundary (so `C07.delivers` is the case `k = length`). -/
theorem length_mem_boundaries (sync : Bytes) : ∀ (bl : List (Blk α)) (off : Nat),
    off + (body sync bl).length ∈ boundaries sync off bl := by
  intro bl
  induction bl with
  | nil => intro off; simp [body, boundaries]
  | cons b bl ih =>
    intro off
    have := ih (off + (File.frame sync b).length)
    simp only [boundaries, List.mem_cons]
    right
    have e : off + (body sync (b :: bl)).length = off + (File.frame sync b).length + (body sync bl).length := by
      simp [body]; omega
    rw [e]; exact this

/-! ### Non-vacuity: cut positions of the concrete file of `Props/C07.lean`, evaluated by the model

`exFile` is 92 bytes: header 52 (magic 4, map 32, sync 16), block one 53..72 (count, length,
two payload bytes ending at 56, sync), block two 73..92 (payload ends at 76). -/

open Avro.C07 in
example : exHdr.length = 52 ∧ exFile.length = 92 := by decide +kernel

open Avro.C07 in
/-- inside the header: error, nothing delivered -/
example : readFile exX 5 (fun _ => (none : Option Unit)) (exFile.take 30) = ⟨[], .err .metaVal⟩ := by decide +kernel

open Avro.C07 in
/-- exactly the header: success, nothing delivered -/
example : readFile exX 5 (fun _ => (none : Option Unit)) (exFile.take 52) = ⟨[], .ok⟩ := by decide +kernel

open Avro.C07 in
/-- after the first block's count varint / inside its payload: error, nothing delivered -/
example : readFile exX 5 (fun _ => (none : Option Unit)) (exFile.take 53) = ⟨[], .err .length⟩ ∧
    readFile exX 5 (fun _ => (none : Option Unit)) (exFile.take 55) = ⟨[], .err .payload⟩ := by decide +kernel

open Avro.C07 in
/-- first payload complete, sync marker missing or cut short: block one delivered, then an error -/
example : readFile exX 5 (fun _ => (none : Option Unit)) (exFile.take 56) = ⟨[1, 2], .err .syncRead⟩ ∧
    readFile exX 5 (fun _ => (none : Option Unit)) (exFile.take 71) = ⟨[1, 2], .err .syncRead⟩ := by decide +kernel

open Avro.C07 in
/-- end of block one: success -/
example : readFile exX 5 (fun _ => (none : Option Unit)) (exFile.take 72) = ⟨[1, 2], .ok⟩ := by decide +kernel

open Avro.C07 in
/-- one byte into block two: the count varint is complete, the length is missing: error -/
example : readFile exX 5 (fun _ => (none : Option Unit)) (exFile.take 73) = ⟨[1, 2], .err .length⟩ := by decide +kernel

open Avro.C07 in
example : boundaries exSync exHdr.length [exB1, exB2] = [52, 72, 92] ∧
    completeVals exSync exHdr.length [exB1, exB2] 75 = [1, 2] ∧
    completeVals exSync exHdr.length [exB1, exB2] 76 = [1, 2, 3] := by decide +kernel

/-! ### The file a writer wrote, truncated

The theorems above are about any valid file. `EndToEnd.written_valid` says that what the encoder
model writes for a call history *is* a valid file, so they apply to it with no hypothesis about bytes. -/

open Avro.Crash Avro.EndToEnd in
/-- **C08 for written files**: for every `Encode`/`Flush` history `ops` (ended by a `Flush` or not — if
not, the records still pending are simply not in the file), under the hypotheses of
`EndToEnd.write_then_read` (the writer's header is one the reader accepts, the reader's decompressor
undoes the compressor, payload sizes are representable, `rc.decode` decodes every record encoding
exactly to `dec r`), reading the first `k` bytes of what the fault-free writer wrote

* delivers exactly the records of the emitted blocks whose payload is completely within the first `k`
  bytes (`completeVals` over `writtenBlocks cfg dec ops`, the blocks of the reference partition
  `(specPart cfg.blockSize ops []).1` in the reader's vocabulary),
* which is a prefix of the records of the history, `(encodings ops).map dec` — whole records, in
  order, none altered —,
* succeeds iff `k` is the end of the header or of an emitted block, and
* is an error (not a panic, not a hang) at every other `k`. -/
theorem written_file_truncation (cfg : EncCfg) (ops : List EncOp)
    {X : Ext α} {fuel : Nat} {H : Header} {sel : CodecSel} {rc : RecCodec α}
    (hh : ValidHeader X fuel cfg.header H sel rc) (hs : H.sync = cfg.sync)
    (hcomp : ∀ x, decompress X sel (cfg.compress x) = .ok x)
    (hsmall : ∀ blk ∈ (specPart cfg.blockSize ops []).1, (cfg.compress blk.flatten).length ≤ maxLen)
    (dec : Bytes → α) (hdec : ∀ r ∈ encodings ops, ∀ rest, rc.decode (r ++ rest) = .ok (dec r, rest))
    (hn : (encodings ops).length < fuel) (hn63 : (encodings ops).length < 2 ^ 63)
    (cb : Nat → Option ε) (hcb : ∀ i, cb i = none)
    (k : Nat) (hk : k ≤ (encRun cfg {} ops).2.1.accepted.length) :
    (readFile X fuel cb ((encRun cfg {} ops).2.1.accepted.take k)).delivered =
        completeVals cfg.sync cfg.header.length (writtenBlocks cfg dec ops) k ∧
    (readFile X fuel cb ((encRun cfg {} ops).2.1.accepted.take k)).delivered <+: (encodings ops).map dec ∧
    ((readFile X fuel cb ((encRun cfg {} ops).2.1.accepted.take k)).res = .ok ↔
        k ∈ boundaries cfg.sync cfg.header.length (writtenBlocks cfg dec ops)) ∧
    (k ∉ boundaries cfg.sync cfg.header.length (writtenBlocks cfg dec ops) →
        ∃ e, (readFile X fuel cb ((encRun cfg {} ops).2.1.accepted.take k)).res = .err e) := by
  have hv : ValidFile X fuel cfg.header H sel rc (writtenBlocks cfg dec ops) :=
    written_valid cfg ops hh hcomp hsmall dec hdec hn hn63
  rw [written_bytes cfg dec ops] at hk ⊢
  rw [← hs] at hk ⊢
  refine ⟨(truncation hv cb hcb k hk).1, ?_, ok_iff_boundary hv cb hcb k hk, (truncation hv cb hcb k hk).2.2⟩
  exact List.IsPrefix.trans (truncation_prefix hv cb hcb k hk) (allVals_written_prefix cfg dec ops)

/-! Non-vacuity: a concrete history that does **not** end with a `Flush` (record `[4]` stays pending):
blocks `[[1]]` and `[[2], [3]]`, block size 2, codec null, the header of `Props/C07.lean`.
The file is 91 bytes: header 52, block one ends at 71 (payload at 55), block two at 91 (payload at 75). -/

def exCfgW : EncCfg := { blockSize := 2, compress := id, sync := C07.exSync, header := C07.exHdr }
def exOpsW : List EncOp := [.encode [1], .flush, .encode [2], .encode [3], .encode [4]]
def exDecW : Bytes → UInt8 := fun r => r.headD 0
def exRcW : RecCodec UInt8 := { decode := fun bs => match bs with | [] => .err | b :: r => .ok (b, r) }

theorem exHdrW_valid : ValidHeader C07.exX 9 exCfgW.header
    { «meta» := metaOf [Crash.writerMeta [0x22] vNull], sync := C07.exSync } .null exRcW :=
  Crash.valid_writerHeader C07.exX [0x22] vNull C07.exSync 9 (by decide) (by decide) (by decide) .null exRcW
    (Or.inl ⟨rfl, rfl⟩) rfl

/-- the hypotheses of `written_file_truncation` are met by that history, for every cut position -/
example (k : Nat) (hk : k ≤ (encRun exCfgW {} exOpsW).2.1.accepted.length) :
    (readFile C07.exX 9 (fun _ => (none : Option Unit)) ((encRun exCfgW {} exOpsW).2.1.accepted.take k)).delivered <+: [1, 2, 3, 4] := by
  have := (written_file_truncation exCfgW exOpsW exHdrW_valid rfl (fun x => rfl) (by decide) exDecW
    (by intro r hr rest; simp [exOpsW, encodings] at hr; rcases hr with rfl | rfl | rfl | rfl <;> rfl)
    (by decide) (by decide) (fun _ => (none : Option Unit)) (fun _ => rfl) k hk).2.1
  simpa [exOpsW, encodings, exDecW] using this

/-- and its conclusion, evaluated by the two models: positions, what each cut delivers, the result -/
example : (encRun exCfgW {} exOpsW).2.1.accepted.length = 91 ∧
    boundaries exCfgW.sync exCfgW.header.length (Crash.writtenBlocks exCfgW exDecW exOpsW) = [52, 71, 91] ∧
    completeVals exCfgW.sync exCfgW.header.length (Crash.writtenBlocks exCfgW exDecW exOpsW) 74 = [1] ∧
    completeVals exCfgW.sync exCfgW.header.length (Crash.writtenBlocks exCfgW exDecW exOpsW) 75 = [1, 2, 3] := by
  decide +kernel

example : readFile C07.exX 9 (fun _ => (none : Option Unit)) ((encRun exCfgW {} exOpsW).2.1.accepted.take 71) = ⟨[1], .ok⟩ ∧
    readFile C07.exX 9 (fun _ => (none : Option Unit)) ((encRun exCfgW {} exOpsW).2.1.accepted.take 74) = ⟨[1], .err .payload⟩ ∧
    readFile C07.exX 9 (fun _ => (none : Option Unit)) ((encRun exCfgW {} exOpsW).2.1.accepted.take 75) = ⟨[1, 2, 3], .err .syncRead⟩ ∧
    readFile C07.exX 9 (fun _ => (none : Option Unit)) ((encRun exCfgW {} exOpsW).2.1.accepted.take 91) = ⟨[1, 2, 3], .ok⟩ := by
  decide +kernel

end Avro.C08
