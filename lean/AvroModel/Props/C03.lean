import AvroModel.Lemmas.ReadOk
import AvroModel.Lemmas.BuildOk
import AvroModel.Lemmas.NoPanic
import AvroModel.Lemmas.ReadBudget
/-!
# C03 — Reader decodes every spec-legal encoding of a datum to that datum

Model: `Codec.lean` (`read`), `Build.lean` (`buildCodec`), specification: `Wire.lean` (`encode` indexed by
the writer's `Plan`), `Sem.lean` (`ofAvro`: the Go value a datum denotes for a codec; `classify`).
Quantifiers: every schema the specification defines, every datum, every plan (any block partition,
with or without byte-size prefixes; null in either union position; single-, multi-branch unions),
every Go target for which construction succeeds, every trailing input, every step budget.
-/
namespace Avro.C03
open Avro

variable (env : Env)

/-- **Main theorem.** If the library builds a decoder `c` for schema `s` and Go type `T`, then on any
legal encoding `bs` (plan `p`) of any datum `v` of `s`, followed by anything (`rest`), `read` returns the
Go value the datum denotes and leaves exactly `rest`; a datum that does not fit the target is an
error, never a truncated value. (`ReadSpec` spells this out; `fuel` = step budget exhausted.) -/
theorem decode (reg : Reg) (hreg : ∀ id, reg.custom id = none) (nb fa n m : Nat)
    (s : Schema) (T : Option GoType) (oe : Bool) (c : Codec) (a : ASchema)
    (p : Plan) (v : Value) (bs rest : Bytes) (dst : GoVal)
    (hb : buildCodec reg nb s T oe = .ok c) (hc : classify fa s = some a) (he : encode p a v = some bs) :
    ReadSpec (read env n c (bs ++ rest) dst) (ofAvro env m c v dst) rest :=
  (readOkAt env n).read m c a p v bs rest dst ((buildOkAt reg hreg nb).build s T oe c hb fa a hc) he

/-- the datum fits: the value and the exact remainder are returned (or the budget ran out) -/
theorem decode_ok (c : Codec) (a : ASchema) (hcf : CodecFor c a) (n m : Nat) (p : Plan) (v : Value) (bs rest : Bytes)
    (dst g : GoVal) (he : encode p a v = some bs) (hfit : ofAvro env m c v dst = .ok g) :
    read env n c (bs ++ rest) dst = .ok (g, rest) ∨ read env n c (bs ++ rest) dst = .fuel := by
  have := (readOkAt env n).read m c a p v bs rest dst hcf he
  rw [hfit] at this; exact this

/-- the datum does not fit the Go field (integer out of range for the field's width, unparsable
timestamp): an error is reported — never a silently truncated value -/
theorem misfit_is_error (c : Codec) (a : ASchema) (hcf : CodecFor c a) (n m : Nat) (p : Plan) (v : Value) (bs rest : Bytes)
    (dst : GoVal) (he : encode p a v = some bs) (hfit : ofAvro env m c v dst = .misfit) :
    read env n c (bs ++ rest) dst = .err ∨ read env n c (bs ++ rest) dst = .fuel := by
  have := (readOkAt env n).read m c a p v bs rest dst hcf he
  rw [hfit] at this; exact this

/-- **Main theorem with an explicit step budget.** As `decode`, for every step budget
`n ≥ readBudget c v = Codec.sz c + 2 * Value.sz v + 2` — a function of the codec tree and the datum only
(not of the writer's plan, the destination or the trailing input). The result is exact: the datum's
value and exactly `rest` when the datum fits (`ofAvro … = .ok g`), `.err` when it does not
(`.misfit`); for combinations typing excludes (`.illtyped`) the call still finishes (`≠ .fuel`).
`ReadExact` spells out these three cases; no alternative "out of budget" remains. -/
theorem decode_budget (reg : Reg) (hreg : ∀ id, reg.custom id = none) (nb fa n m : Nat)
    (s : Schema) (T : Option GoType) (oe : Bool) (c : Codec) (a : ASchema)
    (p : Plan) (v : Value) (bs rest : Bytes) (dst : GoVal)
    (hb : buildCodec reg nb s T oe = .ok c) (hc : classify fa s = some a) (he : encode p a v = some bs)
    (hn : readBudget c v ≤ n) :
    ReadExact (read env n c (bs ++ rest) dst) (ofAvro env m c v dst) rest :=
  read_budget_spec env ((buildOkAt reg hreg nb).build s T oe c hb fa a hc) he hn rest m dst

/-- the datum fits: the value and the exact remainder are returned -/
theorem decode_ok_budget (c : Codec) (a : ASchema) (hcf : CodecFor c a) (n m : Nat) (p : Plan) (v : Value) (bs rest : Bytes)
    (dst g : GoVal) (he : encode p a v = some bs) (hfit : ofAvro env m c v dst = .ok g) (hn : readBudget c v ≤ n) :
    read env n c (bs ++ rest) dst = .ok (g, rest) :=
  read_exact env hcf he hn rest hfit

/-- the datum does not fit the Go field: an error -/
theorem misfit_is_error_budget (c : Codec) (a : ASchema) (hcf : CodecFor c a) (n m : Nat) (p : Plan) (v : Value) (bs rest : Bytes)
    (dst : GoVal) (he : encode p a v = some bs) (hfit : ofAvro env m c v dst = .misfit) (hn : readBudget c v ≤ n) :
    read env n c (bs ++ rest) dst = .err :=
  read_misfit env hcf he hn rest hfit

/-- an integer that does not fit the destination width is a misfit -/
theorem int_out_of_range (m w : Nat) (o : Bool) (i : Int) (dst : GoVal) (h : ¬ inRange w i) :
    ofAvro env (m + 1) (.int w o) (.int i) dst = .misfit := by
  simp [ofAvro, h]

/-- arrays split into several blocks decode to the concatenation, in order: the expected value of an
array only depends on the item list, not on the plan -/
theorem array_plan_irrelevant (c : Codec) (a : ASchema) (hcf : CodecFor c a) (n m : Nat) (p p' : Plan) (v : Value)
    (bs bs' rest : Bytes) (dst g : GoVal) (he : encode p a v = some bs) (he' : encode p' a v = some bs')
    (hfit : ofAvro env m c v dst = .ok g) :
    (read env n c (bs ++ rest) dst = .ok (g, rest) ∨ read env n c (bs ++ rest) dst = .fuel) ∧
    (read env n c (bs' ++ rest) dst = .ok (g, rest) ∨ read env n c (bs' ++ rest) dst = .fuel) :=
  ⟨decode_ok env c a hcf n m p v bs rest dst g he hfit, decode_ok env c a hcf n m p' v bs' rest dst g he' hfit⟩

/-- construction never yields anything but a codec or an error, and reading never panics -/
theorem read_never_panics (n : Nat) (c : Codec) (bs : Bytes) (dst : GoVal) : read env n c bs dst ≠ .panic :=
  (noPanicAt env n).read c bs dst

/-! Non-vacuity: a two-block, size-prefixed array of longs in a nullable union (null second) -/
example :
    encode (.node [] [.node [(1, true), (2, false)] [.leaf, .leaf, .leaf]])
      (.union [.array .long, .null]) (.union 0 (.array [.int 1, .int (-1), .int 64])) =
      some [0, 1, 2, 2, 4, 1, 0x80, 0x01, 0] := by
  simp [encode, encodeItems, encBlocks, writeVarint, zigzag, putUvarint, inRange, Plan.leaf]

/-- non-vacuity of `decode_ok_budget`: that encoding read into an empty slice with budget
`readBudget = 2 + 2 * 5 + 2 = 14`, whatever follows -/
example (rest : Bytes) :
    read env 14 (.unionOne (.array (.int 64 false) false) 0) ([0, 1, 2, 2, 4, 1, 0x80, 0x01, 0] ++ rest) (.slice []) =
      .ok (.slice [.int 1, .int (-1), .int 64], rest) :=
  decode_ok_budget env _ (.union [.array .long, .null]) (.unionOne0 (.array .intL)) 14 4
    (.node [] [.node [(1, true), (2, false)] [.leaf, .leaf, .leaf]]) (.union 0 (.array [.int 1, .int (-1), .int 64])) _ rest _ _
    (by simp [encode, encodeItems, encBlocks, writeVarint, zigzag, putUvarint, inRange, Plan.leaf])
    (by simp [ofAvro, mapFit, inRange, Codec.zero])
    (by simp [readBudget, Codec.sz, Value.sz, Value.szList])

/-- non-vacuity of `misfit_is_error_budget`: 300 does not fit an `int8` field -/
example (rest : Bytes) : read env 2 (.int 8 false) ([0xd8, 0x04] ++ rest) (.int 0) = .err :=
  misfit_is_error_budget env _ .long .intL 2 1 .leaf (.int 300) _ rest _
    (by simp [encode, writeVarint, zigzag, putUvarint, inRange])
    (by simp [ofAvro, inRange])
    (by simp [readBudget, Codec.sz, Value.sz])

end Avro.C03
