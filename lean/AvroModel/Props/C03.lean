import AvroModel.Lemmas.ReadOk
import AvroModel.Lemmas.BuildOk
import AvroModel.Lemmas.NoPanic
import AvroModel.Lemmas.ReadBudget
import AvroModel.Props.C07
/-!
# C03 — Reader decodes every spec-legal encoding of a datum to that datum

Model: `Codec.lean` (`read`), `Build.lean` (`buildCodec`), specification: `Wire.lean` (`encode` indexed by
the writer's `Plan`), `Sem.lean` (`ofAvro`: the Go value a datum denotes for a codec; `classify`).
Quantifiers: every schema the specification defines, every datum, every plan (any block partition,
with or without byte-size prefixes; null in either union position; single-, multi-branch unions),
every Go target for which construction succeeds, every trailing input, every step budget.
-/
namespace Avro.C03
open Avro

variable (env : Env)

/-- **Main theorem.** If the library builds a decoder `c` for schema `s` and Go type `T`, then on any
legal encoding `bs` (plan `p`) of any datum `v` of `s`, followed by anything (`rest`), `read` returns the
Go value the datum denotes and leaves exactly `rest`; a datum that does not fit the target is an
error, never a truncated value. (`ReadSpec` spells this out; `fuel` = step budget exhausted.) -/
theorem decode (reg : Reg) (hreg : ∀ id, reg.custom id = none) (nb fa n m : Nat)
    (s : Schema) (T : Option GoType) (oe : Bool) (c : Codec) (a : ASchema)
    (p : Plan) (v : Value) (bs rest : Bytes) (dst : GoVal)
    (hb : buildCodec reg nb s T oe = .ok c) (hc : classify fa s = some a) (he : encode p a v = some bs) :
    ReadSpec (read env n c (bs ++ rest) dst) (ofAvro env m c v dst) rest :=
  (readOkAt env n).read m c a p v bs rest dst ((buildOkAt reg hreg nb).build s T oe c hb fa a hc) he

/-- the datum fits: the value and the exact remainder are returned (or the budget ran out) -/
theorem decode_ok (c : Codec) (a : ASchema) (hcf : CodecFor c a) (n m : Nat) (p : Plan) (v : Value) (bs rest : Bytes)
    (dst g : GoVal) (he : encode p a v = some bs) (hfit : ofAvro env m c v dst = .ok g) :
    read env n c (bs ++ rest) dst = .ok (g, rest) ∨ read env n c (bs ++ rest) dst = .fuel := by
  have := (readOkAt env n).read m c a p v bs rest dst hcf he
  rw [hfit] at this; exact this

/-- the datum does not fit the Go field (integer out of range for the field's width, unparsable
timestamp): an error is reported — never a silently truncated value -/
theorem misfit_is_error (c : Codec) (a : ASchema) (hcf : CodecFor c a) (n m : Nat) (p : Plan) (v : Value) (bs rest : Bytes)
    (dst : GoVal) (he : encode p a v = some bs) (hfit : ofAvro env m c v dst = .misfit) :
    read env n c (bs ++ rest) dst = .err ∨ read env n c (bs ++ rest) dst = .fuel := by
  have := (readOkAt env n).read m c a p v bs rest dst hcf he
  rw [hfit] at this; exact this

/-- **Main theorem with an explicit step budget.** As `decode`, for every step budget
`n ≥ readBudget c v = Codec.sz c + 2 * Value.sz v + 2` — a function of the codec tree and the datum only
(not of the writer's plan, the destination or the trailing input). The result is exact: the datum's
value and exactly `rest` when the datum fits (`ofAvro … = .ok g`), `.err` when it does not
(`.misfit`); for combinations typing excludes (`.illtyped`) the call still finishes (`≠ .fuel`).
`ReadExact` spells out these three cases; no alternative "out of budget" remains. -/
theorem decode_budget (reg : Reg) (hreg : ∀ id, reg.custom id = none) (nb fa n m : Nat)
    (s : Schema) (T : Option GoType) (oe : Bool) (c : Codec) (a : ASchema)
    (p : Plan) (v : Value) (bs rest : Bytes) (dst : GoVal)
    (hb : buildCodec reg nb s T oe = .ok c) (hc : classify fa s = some a) (he : encode p a v = some bs)
    (hn : readBudget c v ≤ n) :
    ReadExact (read env n c (bs ++ rest) dst) (ofAvro env m c v dst) rest :=
  read_budget_spec env ((buildOkAt reg hreg nb).build s T oe c hb fa a hc) he hn rest m dst

/-- the datum fits: the value and the exact remainder are returned -/
theorem decode_ok_budget (c : Codec) (a : ASchema) (hcf : CodecFor c a) (n m : Nat) (p : Plan) (v : Value) (bs rest : Bytes)
    (dst g : GoVal) (he : encode p a v = some bs) (hfit : ofAvro env m c v dst = .ok g) (hn : readBudget c v ≤ n) :
    read env n c (bs ++ rest) dst = .ok (g, rest) :=
  read_exact env hcf he hn rest hfit

/-- the datum does not fit the Go field: an error -/
theorem misfit_is_error_budget (c : Codec) (a : ASchema) (hcf : CodecFor c a) (n m : Nat) (p : Plan) (v : Value) (bs rest : Bytes)
    (dst : GoVal) (he : encode p a v = some bs) (hfit : ofAvro env m c v dst = .misfit) (hn : readBudget c v ≤ n) :
    read env n c (bs ++ rest) dst = .err :=
  read_misfit env hcf he hn rest hfit

/-- an integer that does not fit the destination width is a misfit -/
theorem int_out_of_range (m w : Nat) (o : Bool) (i : Int) (dst : GoVal) (h : ¬ inRange w i) :
    ofAvro env (m + 1) (.int w o) (.int i) dst = .misfit := by
  simp [ofAvro, h]

/-- arrays split into several blocks decode to the concatenation, in order: the expected value of an
array only depends on the item list, not on the plan -/
theorem array_plan_irrelevant (c : Codec) (a : ASchema) (hcf : CodecFor c a) (n m : Nat) (p p' : Plan) (v : Value)
    (bs bs' rest : Bytes) (dst g : GoVal) (he : encode p a v = some bs) (he' : encode p' a v = some bs')
    (hfit : ofAvro env m c v dst = .ok g) :
    (read env n c (bs ++ rest) dst = .ok (g, rest) ∨ read env n c (bs ++ rest) dst = .fuel) ∧
    (read env n c (bs' ++ rest) dst = .ok (g, rest) ∨ read env n c (bs' ++ rest) dst = .fuel) :=
  ⟨decode_ok env c a hcf n m p v bs rest dst g he hfit, decode_ok env c a hcf n m p' v bs' rest dst g he' hfit⟩

/-- construction never yields anything but a codec or an error, and reading never panics -/
theorem read_never_panics (n : Nat) (c : Codec) (bs : Bytes) (dst : GoVal) : read env n c bs dst ≠ .panic :=
  (noPanicAt env n).read c bs dst

/-! Non-vacuity: a two-block, size-prefixed array of longs in a nullable union (null second) -/
example :
    encode (.node [] [.node [(1, true), (2, false)] [.leaf, .leaf, .leaf]])
      (.union [.array .long, .null]) (.union 0 (.array [.int 1, .int (-1), .int 64])) =
      some [0, 1, 2, 2, 4, 1, 0x80, 0x01, 0] := by
  simp [encode, encodeItems, encBlocks, writeVarint, zigzag, putUvarint, inRange, Plan.leaf]

/-- non-vacuity of `decode_ok_budget`: that encoding read into an empty slice with budget
`readBudget = 2 + 2 * 5 + 2 = 14`, whatever follows -/
example (rest : Bytes) :
    read env 14 (.unionOne (.array (.int 64 false) false) 0) ([0, 1, 2, 2, 4, 1, 0x80, 0x01, 0] ++ rest) (.slice []) =
      .ok (.slice [.int 1, .int (-1), .int 64], rest) :=
  decode_ok_budget env _ (.union [.array .long, .null]) (.unionOne0 (.array .intL)) 14 4
    (.node [] [.node [(1, true), (2, false)] [.leaf, .leaf, .leaf]]) (.union 0 (.array [.int 1, .int (-1), .int 64])) _ rest _ _
    (by simp [encode, encodeItems, encBlocks, writeVarint, zigzag, putUvarint, inRange, Plan.leaf])
    (by simp [ofAvro, mapFit, inRange])
    (by simp [readBudget, Codec.sz, Value.sz, Value.szList])

/-- non-vacuity of `misfit_is_error_budget`: 300 does not fit an `int8` field -/
example (rest : Bytes) : read env 2 (.int 8 false) ([0xd8, 0x04] ++ rest) (.int 0) = .err :=
  misfit_is_error_budget env _ .long .intL 2 1 .leaf (.int 300) _ rest _
    (by simp [encode, writeVarint, zigzag, putUvarint, inRange])
    (by simp [ofAvro, inRange])
    (by simp [readBudget, Codec.sz, Value.sz])

/-! ### Whole files: any partition into file blocks, any of the three compression codecs -/

/-- one record of a file: a datum, the writer's plan for it, its encoding, and the Go value it denotes -/
structure Rec where
  v : Value
  p : Plan
  b : Bytes
  g : GoVal

/-- the record decoder of a file whose schema builds codec `c`: `Codec.Read` into a zeroed
destination, with the FIXED step budget `N` for every record -/
def recDecoder (N : Nat) (c : Codec) : File.RecCodec GoVal :=
  { decode := fun bs => read env N c bs (Codec.zero env c) }

/-- the file block holding the records `blk`, stored as `compress` of the concatenated encodings -/
def recBlk (compress : Bytes → Bytes) (blk : List Rec) : File.Blk GoVal :=
  { recs := blk.map (fun r => (r.g, r.b)), junk := [], payload := compress (blk.map (·.b)).flatten }

/-- **C03, whole files.** Let `c` be a codec the library builds for schema `s`, and `part` ANY grouping
(a list of lists: empty groups and any group sizes allowed) of records, each a legal encoding `r.b`
(any plan `r.p`) of a datum `r.v` of `s` whose value for the zeroed destination is `r.g`. Store each
group as a block compressed by any `compress` that the reader's decompressor for the header's codec
(`null`, `deflate` or `snappy`) undoes, after any valid header whose schema builds the decoder
`recDecoder env N c`, where the single step budget `N` is at least every record's
`readBudget c r.v` (for instance `readBudgetList c` of all the data). Then `readFile` delivers exactly
the values `r.g`, in file order, and succeeds. Side conditions: the compressed blocks and the record
counts are representable (`maxLen`, `2^63`), the reader's block budget `fuel` exceeds the number of
blocks. No hypothesis mentions `.fuel` or the decodability of any byte string. -/
theorem file_decode (c : Codec) (s : ASchema) (hcf : CodecFor c s) (m N : Nat) (part : List (List Rec))
    (henc : ∀ blk ∈ part, ∀ r ∈ blk, encode r.p s r.v = some r.b)
    (hfit : ∀ blk ∈ part, ∀ r ∈ blk, ofAvro env m c r.v (Codec.zero env c) = .ok r.g)
    (hN : ∀ blk ∈ part, ∀ r ∈ blk, readBudget c r.v ≤ N)
    {ε : Type} {X : File.Ext GoVal} {fuel : Nat} {hdr : Bytes} {H : File.Header} {sel : File.CodecSel}
    (hh : File.ValidHeader X fuel hdr H sel (recDecoder env N c))
    (compress : Bytes → Bytes) (hcomp : ∀ x, File.decompress X sel (compress x) = .ok x)
    (hsmall : ∀ blk ∈ part, (compress (blk.map (·.b)).flatten).length ≤ File.maxLen)
    (hcount : ∀ blk ∈ part, blk.length < 2 ^ 63) (hfuel : part.length < fuel)
    (cb : Nat → Option ε) (hcb : ∀ i, cb i = none) :
    File.readFile X fuel cb (hdr ++ File.body H.sync (part.map (recBlk compress))) =
      ⟨part.flatten.map (·.g), .ok⟩ := by
  have hv : File.ValidFile X fuel hdr H sel (recDecoder env N c) (part.map (recBlk compress)) :=
    { toValidHeader := hh
      blocks := by
        intro b hb
        obtain ⟨blk, hblk, rfl⟩ := List.mem_map.mp hb
        refine ⟨?_, ?_, ?_, ?_⟩
        · simp only [recBlk, File.Blk.data, List.map_map, Function.comp_def, List.append_nil]
          exact hcomp _
        · intro ve hve rest
          simp only [recBlk, List.mem_map] at hve
          obtain ⟨r, hr, rfl⟩ := hve
          exact read_exact env hcf (henc blk hblk r hr) (hN blk hblk r hr) rest (hfit blk hblk r hr)
        · exact hsmall blk hblk
        · simp only [recBlk, List.length_map]; exact hcount blk hblk
      fuel := by simp only [List.length_map]; exact hfuel }
  have hvals : File.allVals (part.map (recBlk compress)) = part.flatten.map (·.g) := by
    clear hv henc hfit hN hsmall hcount hfuel
    induction part with
    | nil => simp [File.allVals]
    | cons b bs ih =>
      simp only [File.allVals, List.map_cons, List.flatMap_cons, List.flatten_cons, List.map_append] at ih ⊢
      rw [ih]
      simp [recBlk, File.Blk.vals, List.map_map, Function.comp_def]
  rw [← hvals]
  exact C07.delivers hv cb hcb

/-- the budget of a whole file: the maximum of the records' budgets suffices for every record -/
theorem file_budget_of_list (c : Codec) (N : Nat) (part : List (List Rec))
    (h : readBudgetList c (part.flatten.map (·.v)) ≤ N) : ∀ blk ∈ part, ∀ r ∈ blk, readBudget c r.v ≤ N := by
  intro blk hblk r hr
  refine Nat.le_trans (readBudget_le_list ?_) h
  exact List.mem_map.mpr ⟨r, List.mem_flatten.mpr ⟨blk, hblk, hr⟩, rfl⟩

/-! Non-vacuity of `file_decode`: arrays of longs; three records (a size-prefixed block, an empty
array, a two-block array) grouped as `[[r1, r2], [], [r3]]` (an empty file block included), stored
with a toy "deflate" (`compress` = reverse, undone by the reader's `inflate`), decoded with the
single budget `9 = readBudget` of the largest record. -/

def exC : Codec := .array (.int 64 false) false
def exR1 : Rec := ⟨.array [.int 1], .node [(1, true)] [.leaf], [1, 2, 2, 0], .slice [.int 1]⟩
def exR2 : Rec := ⟨.array [], .node [] [], [0], .slice []⟩
def exR3 : Rec := ⟨.array [.int 2, .int 3], .node [(1, false), (1, false)] [.leaf, .leaf], [2, 4, 2, 6, 0], .slice [.int 2, .int 3]⟩
def exPart : List (List Rec) := [[exR1, exR2], [], [exR3]]
def exXd : File.Ext GoVal :=
  { inflate := fun c => some c.reverse, unsnappy := fun c => some c, crc := fun _ => 0,
    build := fun _ => some (recDecoder env 9 exC) }
def exHdrD : Bytes := File.mkHeader [[(File.kSchema, [0x22]), (File.kCodec, File.vDeflate)]] C07.exSync

theorem mem_exPart {P : Rec → Prop} (h1 : P exR1) (h2 : P exR2) (h3 : P exR3) : ∀ blk ∈ exPart, ∀ r ∈ blk, P r := by
  intro blk hblk r hr
  simp only [exPart, List.mem_cons, List.not_mem_nil, or_false] at hblk
  rcases hblk with rfl | rfl | rfl
  · simp only [List.mem_cons, List.not_mem_nil, or_false] at hr
    rcases hr with rfl | rfl <;> assumption
  · simp at hr
  · simp only [List.mem_cons, List.not_mem_nil, or_false] at hr
    subst hr; assumption

example : File.readFile (exXd env) 5 (fun _ => (none : Option Unit))
    (exHdrD ++ File.body C07.exSync (exPart.map (recBlk List.reverse))) =
    ⟨[.slice [.int 1], .slice [], .slice [.int 2, .int 3]], .ok⟩ := by
  have hh : File.ValidHeader (exXd env) 5 exHdrD
      { «meta» := File.metaOf [[(File.kSchema, [0x22]), (File.kCodec, File.vDeflate)]], sync := C07.exSync } .deflate
      (recDecoder env 9 exC) := by
    refine C07.valid_mkHeader (exXd env) _ C07.exSync 5 ?_ (by decide) (by decide) .deflate _ (by decide) ⟨[0x22], by decide, rfl⟩
    intro es hes
    simp only [List.mem_singleton] at hes
    subst hes
    refine ⟨by simp, by decide, ?_⟩
    intro kv hkv
    simp only [List.mem_cons, List.not_mem_nil, or_false] at hkv
    rcases hkv with rfl | rfl <;> exact ⟨by decide, by decide⟩
  exact file_decode env exC (.array .long) (.array .intL) 2 9 exPart
    (mem_exPart (by decide +kernel) (by decide +kernel) (by decide +kernel))
    (mem_exPart (by simp [exR1, exC, ofAvro, mapFit, inRange, Codec.zero]) (by simp [exR2, exC, ofAvro, mapFit, Codec.zero])
      (by simp [exR3, exC, ofAvro, mapFit, inRange, Codec.zero]))
    (mem_exPart (by decide +kernel) (by decide +kernel) (by decide +kernel))
    hh List.reverse (fun x => by simp [File.decompress, exXd])
    (by decide +kernel) (by decide +kernel) (by decide) _ (fun _ => rfl)

end Avro.C03
