import AvroModel.Lemmas.ReadOk
import AvroModel.Lemmas.BuildOk
import AvroModel.Lemmas.NoPanic
/-!
# C03 — Reader decodes every spec-legal encoding of a datum to that datum

Model: `Codec.lean` (`read`), `Build.lean` (`buildCodec`), specification: `Wire.lean` (`encode` indexed by
the writer's `Plan`), `Sem.lean` (`ofAvro`: the Go value a datum denotes for a codec; `classify`).
Quantifiers: every schema the specification defines, every datum, every plan (any block partition,
with or without byte-size prefixes; null in either union position; single-, multi-branch unions),
every Go target for which construction succeeds, every trailing input, every step budget.
-/
namespace Avro.C03
open Avro

variable (env : Env)

/-- **Main theorem.** If the library builds a decoder `c` for schema `s` and Go type `T`, then on any
legal encoding `bs` (plan `p`) of any datum `v` of `s`, followed by anything (`rest`), `read` returns the
Go value the datum denotes and leaves exactly `rest`; a datum that does not fit the target is an
error, never a truncated value. (`ReadSpec` spells this out; `fuel` = step budget exhausted.) -/
theorem decode (reg : Reg) (hreg : ∀ id, reg.custom id = none) (nb fa n m : Nat)
    (s : Schema) (T : Option GoType) (oe : Bool) (c : Codec) (a : ASchema)
    (p : Plan) (v : Value) (bs rest : Bytes) (dst : GoVal)
    (hb : buildCodec reg nb s T oe = .ok c) (hc : classify fa s = some a) (he : encode p a v = some bs) :
    ReadSpec (read env n c (bs ++ rest) dst) (ofAvro env m c v dst) rest :=
  (readOkAt env n).read m c a p v bs rest dst ((buildOkAt reg hreg nb).build s T oe c hb fa a hc) he

/-- the datum fits: the value and the exact remainder are returned (or the budget ran out) -/
theorem decode_ok (c : Codec) (a : ASchema) (hcf : CodecFor c a) (n m : Nat) (p : Plan) (v : Value) (bs rest : Bytes)
    (dst g : GoVal) (he : encode p a v = some bs) (hfit : ofAvro env m c v dst = .ok g) :
    read env n c (bs ++ rest) dst = .ok (g, rest) ∨ read env n c (bs ++ rest) dst = .fuel := by
  have := (readOkAt env n).read m c a p v bs rest dst hcf he
  rw [hfit] at this; exact this

/-- the datum does not fit the Go field (integer out of range for the field's width, unparsable
timestamp): an error is reported — never a silently truncated value -/
theorem misfit_is_error (c : Codec) (a : ASchema) (hcf : CodecFor c a) (n m : Nat) (p : Plan) (v : Value) (bs rest : Bytes)
    (dst : GoVal) (he : encode p a v = some bs) (hfit : ofAvro env m c v dst = .misfit) :
    read env n c (bs ++ rest) dst = .err ∨ read env n c (bs ++ rest) dst = .fuel := by
  have := (readOkAt env n).read m c a p v bs rest dst hcf he
  rw [hfit] at this; exact this

/-- an integer that does not fit the destination width is a misfit -/
theorem int_out_of_range (m w : Nat) (o : Bool) (i : Int) (dst : GoVal) (h : ¬ inRange w i) :
    ofAvro env (m + 1) (.int w o) (.int i) dst = .misfit := by
  simp [ofAvro, h]

/-- arrays split into several blocks decode to the concatenation, in order: the expected value of an
array only depends on the item list, not on the plan -/
theorem array_plan_irrelevant (c : Codec) (a : ASchema) (hcf : CodecFor c a) (n m : Nat) (p p' : Plan) (v : Value)
    (bs bs' rest : Bytes) (dst g : GoVal) (he : encode p a v = some bs) (he' : encode p' a v = some bs')
    (hfit : ofAvro env m c v dst = .ok g) :
    (read env n c (bs ++ rest) dst = .ok (g, rest) ∨ read env n c (bs ++ rest) dst = .fuel) ∧
    (read env n c (bs' ++ rest) dst = .ok (g, rest) ∨ read env n c (bs' ++ rest) dst = .fuel) :=
  ⟨decode_ok env c a hcf n m p v bs rest dst g he hfit, decode_ok env c a hcf n m p' v bs' rest dst g he' hfit⟩

/-- construction never yields anything but a codec or an error, and reading never panics -/
theorem read_never_panics (n : Nat) (c : Codec) (bs : Bytes) (dst : GoVal) : read env n c bs dst ≠ .panic :=
  (noPanicAt env n).read c bs dst

/-! Non-vacuity: a two-block, size-prefixed array of longs in a nullable union (null second) -/
example :
    encode (.node [] [.node [(1, true), (2, false)] [.leaf, .leaf, .leaf]])
      (.union [.array .long, .null]) (.union 0 (.array [.int 1, .int (-1), .int 64])) =
      some [0, 1, 2, 2, 4, 1, 0x80, 0x01, 0] := by
  simp [encode, encodeItems, encBlocks, writeVarint, zigzag, putUvarint, inRange, Plan.leaf]

end Avro.C03
