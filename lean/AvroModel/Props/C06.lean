import AvroModel.Lemmas.NoPanic
import AvroModel.Lemmas.Terminates
import AvroModel.Lemmas.WriteStable
import AvroModel.Props.C18
import AvroModel.Props.C05
/-!
# C06 — Malformed input yields errors, never panics, hangs or runaway allocation

What is proved here, for every byte string (no validity hypothesis):
* the model of every codec's `Read` and `Skip` never panics (`read_total`, `skip_total`), whatever
  the codec tree, the input, the destination and the step budget — in particular `ReadBuf.Next`'s
  guard makes every slice expression safe (`next_total`) and a union selector is range-checked
  before it indexes the branch list;
* timestamp parsing never panics (`parse_time_total`, from C18).
* the model of `Read` and `Skip` terminates (`read_terminates`, `skip_terminates`; with
  `read_total`: `read_result`, `skip_result` — "a result or an error"), and outcomes are monotone in
  the step budget (`read_fuel_mono`); the other budget-indexed model functions (`write`, `toAvro`,
  `ofAvro`) have explicit sufficient budgets (`write_budget`, `toAvro_budget`, `ofAvro_budget`).
The container reader (`C07.no_panic`), the schema parser (total by construction: C14) complete the list.
Runaway allocation / non-termination from declared array block counts is the recorded, unrepaired
finding D14 (`arrayCodec.resizeSlice`); it is exercised by the harness and reported as KNOWN-FINDING.
-/
namespace Avro.C06
open Avro

variable (env : Env)

/-- `Codec.Read` never panics -/
theorem read_total (n : Nat) (c : Codec) (bs : Bytes) (dst : GoVal) : read env n c bs dst ≠ .panic :=
  (noPanicAt env n).read c bs dst

/-- `Codec.Skip` never panics -/
theorem skip_total (n : Nat) (c : Codec) (bs : Bytes) : skip env n c bs ≠ .panic :=
  (noPanicAt env n).skip c bs

/-- `ReadBuf.Next`: any length — negative, huge, overflowing — is an error or a slice inside the buffer -/
theorem next_total (l : Int) (bs : Bytes) : next l bs ≠ .panic := next_ne_panic l bs

/-- a length beyond the input, or negative, is an error -/
theorem next_rejects (l : Int) (bs : Bytes) (h : l < 0 ∨ l > bs.length) : next l bs = .err := by
  unfold next; simp [h]

/-- an array block count that is negative after negation (MinInt64) or would overflow the slice
length is an error (the repaired memory-safety defect D29) -/
theorem array_count_overflow_rejected (count : Int) (r : Bytes) (len : Nat) (hc : 0 ≤ count)
    (h : count > 2 ^ 63 - 1 - (len : Int)) : arrayBlockCount count r len = .err := by
  unfold arrayBlockCount
  have : ¬ count < 0 := by omega
  simp [this]
  omega

/-- timestamp text: every byte string yields a time or an error -/
theorem parse_time_total (bs : Bytes) (k : Avro.Time.TPanic) : Avro.Time.parseTime bs ≠ .panic k :=
  Avro.C18.total bs k

end Avro.C06

/-! ## Termination ("never … fails to terminate")

The model's loops and recursion are indexed by a step budget; `.fuel` is "budget exhausted". The
theorems below show that this outcome is an artefact of too small a budget: for every codec tree,
every input (random, truncated, hostile block counts) and every destination there is a budget from
which on the outcome is one and the same and is a result or an error.

The one hypothesis, `Env.Sane`, concerns user-registered custom codecs, which the model treats as
arbitrary functions on the unread input: they must not hand back more unread input than they were
given (a real `ReadBuf` cannot un-read). Without it the statement is false in the model:
`termination_needs_sane`. -/
namespace Avro.C06
open Avro

variable (env : Env)

/-- Monotonicity in the step budget: an outcome other than `.fuel` is the outcome for every larger
budget. (Unconditional; the nine other mutually recursive functions: `Avro.readFields_mono`, … in
`Lemmas/Mono.lean`.) -/
theorem read_fuel_mono {n m : Nat} (h : n ≤ m) (c : Codec) (bs : Bytes) (dst : GoVal)
    (hr : read env n c bs dst ≠ .fuel) : read env m c bs dst = read env n c bs dst :=
  read_mono env h hr

theorem skip_fuel_mono {n m : Nat} (h : n ≤ m) (c : Codec) (bs : Bytes)
    (hr : skip env n c bs ≠ .fuel) : skip env m c bs = skip env n c bs :=
  skip_mono env h hr

/-- `Codec.Read` terminates: for every codec tree `c`, input `bs` and destination `dst` there is a
step budget `n` that suffices (`≠ .fuel`), and every larger budget gives the same outcome. -/
theorem read_terminates (hs : env.Sane) (c : Codec) (bs : Bytes) (dst : GoVal) :
    ∃ n, ∀ m, n ≤ m → read env m c bs dst = read env n c bs dst ∧ read env n c bs dst ≠ .fuel :=
  (halts env hs c).read bs dst |>.stable

/-- `Codec.Skip` terminates, in the same sense. -/
theorem skip_terminates (hs : env.Sane) (c : Codec) (bs : Bytes) :
    ∃ n, ∀ m, n ≤ m → skip env m c bs = skip env n c bs ∧ skip env n c bs ≠ .fuel :=
  (halts env hs c).skip bs |>.stable

/-- "A result or an error": with a sufficient budget `Codec.Read` returns a decoded value together
with unread input no longer than the input, or an error — or `stuck`, the model's outcome for a
destination whose shape does not fit the codec (e.g. an array codec given a non-slice; this is not a
property of the bytes and is excluded by the typing judgement of C05). Never a panic
(`read_total`), never out of budget. -/
theorem read_result (hs : env.Sane) (c : Codec) (bs : Bytes) (dst : GoVal) :
    ∃ n, ∀ m, n ≤ m →
      (∃ g rest, read env m c bs dst = .ok (g, rest) ∧ rest.length ≤ bs.length) ∨
      read env m c bs dst = .err ∨ read env m c bs dst = .stuck := by
  obtain ⟨n, h⟩ := read_terminates env hs c bs dst
  refine ⟨n, fun m hm => ?_⟩
  obtain ⟨h1, h2⟩ := h m hm
  have hp := read_total env m c bs dst
  have hl := (lenAt env hs m).read c bs dst _ (Nat.le_refl _)
  rw [h1] at hp hl ⊢
  cases hr : read env n c bs dst with
  | ok p => left; exact ⟨p.1, p.2, rfl, hl p hr⟩
  | err => right; left; rfl
  | stuck => right; right; rfl
  | panic => exact absurd hr hp
  | fuel => exact absurd hr h2

/-- `Codec.Skip` has no destination: with a sufficient budget it returns the unread input (no
longer than the input) or an error. -/
theorem skip_result (hs : env.Sane) (c : Codec) (bs : Bytes) :
    ∃ n, ∀ m, n ≤ m →
      (∃ rest, skip env m c bs = .ok rest ∧ rest.length ≤ bs.length) ∨ skip env m c bs = .err := by
  obtain ⟨n, h⟩ := skip_terminates env hs c bs
  refine ⟨n, fun m hm => ?_⟩
  obtain ⟨h1, h2⟩ := h m hm
  have hp := skip_total env m c bs
  have hk := (skipNeverStuckAt env m).skip c bs
  have hl := (lenAt env hs m).skip c bs _ (Nat.le_refl _)
  rw [h1] at hp hk hl ⊢
  cases hr : skip env n c bs with
  | ok p => left; exact ⟨p, rfl, hl p hr⟩
  | err => right; rfl
  | stuck => exact absurd hr hk
  | panic => exact absurd hr hp
  | fuel => exact absurd hr h2

/-- the hypothesis is satisfiable by an environment with real custom codecs (each reads a varint) -/
example : envVarint.Sane := envVarint_sane

/-- a concrete instance: a record with an array of custom items, a map and a union, on hostile
input, under the sane environment above -/
example (bs : Bytes) (dst : GoVal) :
    ∃ n, ∀ m, n ≤ m →
      read envVarint m (.record [] [.array (.custom 0) false, .map .null false, .union [.null, .string false]]
        [some 0, none, some 1]) bs dst =
      read envVarint n (.record [] [.array (.custom 0) false, .map .null false, .union [.null, .string false]]
        [some 0, none, some 1]) bs dst ∧
      read envVarint n (.record [] [.array (.custom 0) false, .map .null false, .union [.null, .string false]]
        [some 0, none, some 1]) bs dst ≠ .fuel :=
  read_terminates envVarint envVarint_sane _ bs dst

/-- `Env.Sane` cannot be dropped: with a custom codec that returns more unread input than it was
given, reading a map / skipping an array of such items exhausts every budget. -/
theorem termination_needs_sane :
    ¬ envGrow.Sane ∧
    (∀ n, read envGrow n (.map (.custom 0) false) [2, 0] (.map true [] []) = .fuel) ∧
    (∀ n, skip envGrow n (.array (.custom 0) false) [2, 0] = .fuel) :=
  ⟨envGrow_not_sane, read_diverges, skip_diverges⟩

/-- zero-width items do not defeat termination: an array block declaring 2^62 `null` items
terminates (after that many steps — the run-time cost of this input is the recorded finding D14),
here for any input whatsoever -/
example (bs : Bytes) : ∃ n, ∀ m, n ≤ m →
    read envVarint m (.array .null false) bs (.slice []) = read envVarint n (.array .null false) bs (.slice []) ∧
    read envVarint n (.array .null false) bs (.slice []) ≠ .fuel :=
  read_terminates envVarint envVarint_sane _ bs _

/-! ### The other budget-indexed model functions

`write` (result `Option Bytes`), `toAvro` and `ofAvro` (`Sem.lean`) use the same device; their
out-of-budget value (`none`, `.illtyped`) is also their "ill-typed" value. For them the budget is
harmless in this form: results are monotone in the budget, and from an explicit budget — the nesting
of the codec plus the size of the value, `Codec.sz c + GoVal.sz g + 1` — on, the result is final. -/

/-- a successful `write` is the result for every larger budget -/
theorem write_fuel_mono {n m : Nat} (h : n ≤ m) (c : Codec) (g : GoVal) (b : Bytes)
    (hw : write env n c g = some b) : write env m c g = some b :=
  write_mono env h hw

/-- from budget `c.sz + g.sz + 1` on `write` no longer changes: a `none` there is ill-typedness
(or the deliberate panic of `unionCodec.Write`), not the budget -/
theorem write_budget (c : Codec) (g : GoVal) (m : Nat) (h : c.sz + g.sz + 1 ≤ m) :
    write env m c g = write env (c.sz + g.sz + 1) c g :=
  write_stable env c g m h

theorem toAvro_budget (nullp : Codec → GoVal → Bool) (c : Codec) (g : GoVal) (m : Nat) (h : c.sz + g.sz + 1 ≤ m) :
    toAvro env nullp m c g = toAvro env nullp (c.sz + g.sz + 1) c g :=
  toAvro_stable env nullp c g m h

theorem ofAvro_budget (c : Codec) (v : Value) (dst : GoVal) (m : Nat) (h : c.sz + v.sz + 1 ≤ m) :
    ofAvro env m c v dst = ofAvro env (c.sz + v.sz + 1) c v dst :=
  ofAvro_stable env c v dst m h

/-- instance: a struct with a slice of two ints under a record/array codec has measure 3 + 5, so
budget 9 is final -/
example (m : Nat) (h : 9 ≤ m) :
    write env m (.record [] [.array (.int 64 false) false] [some 0]) (.struct [.slice [.int 1, .int 2]]) =
    write env 9 (.record [] [.array (.int 64 false) false] [some 0]) (.struct [.slice [.int 1, .int 2]]) := by
  have := write_budget env (.record [] [.array (.int 64 false) false] [some 0]) (.struct [.slice [.int 1, .int 2]]) m
  simp only [Codec.sz, Codec.szList, GoVal.sz, GoVal.szList, Nat.zero_add, Nat.add_zero, Nat.reduceAdd] at this
  exact this h

/-- **C06 for the decoders the library builds** (composition with C05): a decoder built for a Go type `T`
from any schema, run on ANY bytes into a destination of type `T`, halts, and what it returns is either a
value of type `T` together with unread input no longer than the input, or an error — never a panic, never
a wrongly-shaped destination, never "out of budget" from some budget on. -/
theorem built_decoder_result (hs : env.Sane) (reg : Reg) (hlib : reg.lib = true) (hreg : ∀ id, reg.custom id = none)
    (nb : Nat) (s : Schema) (T : GoType) (oe : Bool) (c : Codec) (hwf : T.wf = true)
    (hb : buildCodec reg nb s (some T) oe = .ok c) (hal : allocOK c = true)
    (bs : Bytes) (dst : GoVal) (hd : HasType dst T = true) :
    ∃ n, ∀ m, n ≤ m →
      (∃ g rest, read env m c bs dst = .ok (g, rest) ∧ rest.length ≤ bs.length ∧ HasType g T = true) ∨
      read env m c bs dst = .err := by
  obtain ⟨n, h⟩ := read_result env hs c bs dst
  refine ⟨n, fun m hm => ?_⟩
  have ht := C05.decode_stays_typed reg hlib hreg nb s T oe c hwf hb hal env m bs dst hd
  rcases h m hm with ⟨g, rest, hr, hl⟩ | he | hst
  · exact Or.inl ⟨g, rest, hr, hl, ht.2 g rest hr⟩
  · exact Or.inr he
  · exact absurd hst ht.1

/-- non-vacuity: the record type of C05's example (int16 field, skipped field, `*[]int32`), the library
registry, a sane environment, any bytes -/
example (bs : Bytes) : ∃ c, buildCodec regLib 10 C05.exS (some C05.exT) false = .ok c ∧
    ∃ n, ∀ m, n ≤ m →
      (∃ g rest, read envVarint m c bs (zeroVal C05.exT) = .ok (g, rest) ∧ rest.length ≤ bs.length ∧ HasType g C05.exT = true) ∨
      read envVarint m c bs (zeroVal C05.exT) = .err := by
  have hb : ∃ c, buildCodec regLib 10 C05.exS (some C05.exT) false = .ok c ∧ allocOK c = true := by
    cases h : buildCodec regLib 10 C05.exS (some C05.exT) false with
    | error e => have : (match buildCodec regLib 10 C05.exS (some C05.exT) false with | .ok c => allocOK c && wt c C05.exT | _ => false) = true := by decide +kernel
                 rw [h] at this; cases this
    | ok c => have : (match buildCodec regLib 10 C05.exS (some C05.exT) false with | .ok c => allocOK c && wt c C05.exT | _ => false) = true := by decide +kernel
              rw [h] at this; simp only [Bool.and_eq_true] at this; exact ⟨c, rfl, this.1⟩
  obtain ⟨c, hc, hal⟩ := hb
  exact ⟨c, hc, built_decoder_result envVarint envVarint_sane regLib (by decide +kernel) (fun _ => rfl) 10 C05.exS C05.exT false c
    (by decide +kernel) hc hal bs (zeroVal C05.exT) (C05.zero_hasType C05.exT)⟩

end Avro.C06
