import AvroModel.Lemmas.NoPanic
import AvroModel.Props.C18
/-!
# C06 — Malformed input yields errors, never panics, hangs or runaway allocation

What is proved here, for every byte string (no validity hypothesis):
* the model of every codec's `Read` and `Skip` never panics (`read_total`, `skip_total`), whatever
  the codec tree, the input, the destination and the step budget — in particular `ReadBuf.Next`'s
  guard makes every slice expression safe (`next_total`) and a union selector is range-checked
  before it indexes the branch list;
* timestamp parsing never panics (`parse_time_total`, from C18).
The container reader (`C07.no_panic`), the schema parser (total by construction: C14) complete the list.
Runaway allocation / non-termination from declared array block counts is the recorded, unrepaired
finding D14 (`arrayCodec.resizeSlice`); it is exercised by the harness and reported as KNOWN-FINDING.
-/
namespace Avro.C06
open Avro

variable (env : Env)

/-- `Codec.Read` never panics -/
theorem read_total (n : Nat) (c : Codec) (bs : Bytes) (dst : GoVal) : read env n c bs dst ≠ .panic :=
  (noPanicAt env n).read c bs dst

/-- `Codec.Skip` never panics -/
theorem skip_total (n : Nat) (c : Codec) (bs : Bytes) : skip env n c bs ≠ .panic :=
  (noPanicAt env n).skip c bs

/-- `ReadBuf.Next`: any length — negative, huge, overflowing — is an error or a slice inside the buffer -/
theorem next_total (l : Int) (bs : Bytes) : next l bs ≠ .panic := next_ne_panic l bs

/-- a length beyond the input, or negative, is an error -/
theorem next_rejects (l : Int) (bs : Bytes) (h : l < 0 ∨ l > bs.length) : next l bs = .err := by
  unfold next; simp [h]

/-- an array block count that is negative after negation (MinInt64) or would overflow the slice
length is an error (the repaired memory-safety defect D29) -/
theorem array_count_overflow_rejected (count : Int) (r : Bytes) (len : Nat) (hc : 0 ≤ count)
    (h : count > 2 ^ 63 - 1 - (len : Int)) : arrayBlockCount count r len = .err := by
  unfold arrayBlockCount
  have : ¬ count < 0 := by omega
  simp [this]
  omega

/-- timestamp text: every byte string yields a time or an error -/
theorem parse_time_total (bs : Bytes) (k : Avro.Time.TPanic) : Avro.Time.parseTime bs ≠ .panic k :=
  Avro.C18.total bs k

end Avro.C06
