import AvroModel.Lemmas.Bytes
/-!
# C17 — Primitive wire encodings match the Avro specification exactly

Model: `AvroModel/Bytes.lean` (`writeVarint` = `WriteBuf.Varint`/`binary.AppendVarint`,
`readVarint` = `ReadBuf.Varint`/`uvarint`, `readInt w` = `IntCodec[T].Read`,
`putLE`/`getLE` = `fixedCodec` applied to float bit patterns).
All theorems are unbounded: every `Int` in the 64-bit range, every byte string.
-/
namespace Avro.C17

open Avro

/-- Decoding inverts encoding for every 64-bit value, whatever follows. -/
theorem varint_roundtrip (v : Int) (hv : inRange 64 v) (rest : Bytes) :
    readVarint (writeVarint v ++ rest) = .ok (v, rest) := by
  unfold readVarint writeVarint
  rw [readUvarint_put (zigzag_lt hv)]
  simp [unzig_zigzag]

/-- At most ten bytes, at least one. -/
theorem varint_length (v : Int) (hv : inRange 64 v) :
    1 ≤ (writeVarint v).length ∧ (writeVarint v).length ≤ 10 := by
  refine ⟨putUvarint_length_pos _, ?_⟩
  apply putUvarint_length_le _ 10 _ (by omega)
  have := zigzag_lt hv
  have h2 : (2:Nat) ^ 64 ≤ 2 ^ (7 * 10) := Nat.pow_le_pow_right (by omega) (by omega)
  omega

/-- The encoder emits the canonical (unique shortest) form. -/
theorem varint_canonical (v : Int) : Canonical (writeVarint v) := putUvarint_canonical _

/-- A successful decode consumed `k ≥ 1` bytes and the value is below `2^(7k)`. -/
theorem readUvarintAux_bound : ∀ (bs : Bytes) (i x r : Nat) (rest : Bytes),
    readUvarintAux i x bs = .ok (r, rest) → x < 2 ^ (7 * i) →
    ∃ k, 1 ≤ k ∧ bs.length = k + rest.length ∧ r < 2 ^ (7 * (i + k)) := by
  intro bs
  induction bs with
  | nil => intro i x r rest h; simp [readUvarintAux] at h
  | cons b tl ih =>
    intro i x r rest h hx
    simp only [readUvarintAux] at h
    have hpow : 2 ^ (7 * (i + 1)) = 128 * 2 ^ (7 * i) := pow7_succ i
    split at h
    · rename_i hb
      split at h
      · cases h
      · simp only [Except.ok.injEq, Prod.mk.injEq] at h
        obtain ⟨rfl, rfl⟩ := h
        refine ⟨1, by omega, by simp; omega, ?_⟩
        rw [hpow]
        generalize 2 ^ (7 * i) = m at *
        have : b.toNat * m ≤ 127 * m := Nat.mul_le_mul_right m (by omega)
        omega
    · have hx' : x + b.toNat % 128 * 2 ^ (7 * i) < 2 ^ (7 * (i + 1)) := by
        rw [hpow]
        generalize 2 ^ (7 * i) = m at *
        have : b.toNat % 128 * m ≤ 127 * m := Nat.mul_le_mul_right m (by omega)
        omega
      obtain ⟨k, hk1, hlen, hr⟩ := ih (i + 1) _ r rest h hx'
      refine ⟨k + 1, by omega, by simp; omega, ?_⟩
      have : i + (k + 1) = i + 1 + k := by omega
      rw [this]; exact hr

/-- Shortest form: no byte string that decodes to `v` is shorter than what the encoder writes. -/
theorem varint_shortest (bs : Bytes) (v : Int) (rest : Bytes)
    (h : readVarint bs = .ok (v, rest)) :
    (writeVarint v).length + rest.length ≤ bs.length := by
  unfold readVarint at h
  cases hu : readUvarint bs with
  | error e => simp [hu] at h
  | ok p =>
    obtain ⟨n, rest'⟩ := p
    simp [hu] at h
    obtain ⟨rfl, rfl⟩ := h
    obtain ⟨k, hk1, hlen, hr⟩ := readUvarintAux_bound bs 0 0 n rest' hu (by simp)
    have := putUvarint_length_le n k (by simpa using hr) hk1
    unfold writeVarint
    rw [zigzag_unzig]; omega

/-- A successfully decoded value always is a 64-bit value (no silent wrap). -/
theorem readUvarintAux_lt64 : ∀ (bs : Bytes) (i x r : Nat) (rest : Bytes),
    readUvarintAux i x bs = .ok (r, rest) → x < 2 ^ (7 * i) → r < 2 ^ 64 := by
  intro bs
  induction bs with
  | nil => intro i x r rest h; simp [readUvarintAux] at h
  | cons b tl ih =>
    intro i x r rest h hx
    simp only [readUvarintAux] at h
    have hpow : 2 ^ (7 * (i + 1)) = 128 * 2 ^ (7 * i) := pow7_succ i
    split at h
    · rename_i hb
      split at h
      · cases h
      · rename_i hc
        simp only [Except.ok.injEq, Prod.mk.injEq] at h
        obtain ⟨rfl, rfl⟩ := h
        have hi : i ≤ 9 := by omega
        by_cases h9 : i = 9
        · subst h9
          have hb1 : b.toNat ≤ 1 := by omega
          have : b.toNat * 2 ^ (7 * 9) ≤ 1 * 2 ^ (7 * 9) := Nat.mul_le_mul_right _ hb1
          omega
        · have hle : 2 ^ (7 * (i + 1)) ≤ 2 ^ 64 :=
            Nat.pow_le_pow_right (by omega) (by omega)
          rw [hpow] at hle
          generalize 2 ^ (7 * i) = m at *
          have : b.toNat * m ≤ 127 * m := Nat.mul_le_mul_right m (by omega)
          omega
    · have hx' : x + b.toNat % 128 * 2 ^ (7 * i) < 2 ^ (7 * (i + 1)) := by
        rw [hpow]
        generalize 2 ^ (7 * i) = m at *
        have : b.toNat % 128 * m ≤ 127 * m := Nat.mul_le_mul_right m (by omega)
        omega
      exact ih (i + 1) _ r rest h hx'

theorem readVarint_inRange (bs : Bytes) (v : Int) (rest : Bytes)
    (h : readVarint bs = .ok (v, rest)) : inRange 64 v := by
  unfold readVarint at h
  cases hu : readUvarint bs with
  | error e => simp [hu] at h
  | ok p =>
    obtain ⟨n, rest'⟩ := p
    simp [hu] at h
    obtain ⟨rfl, rfl⟩ := h
    exact unzig_inRange (readUvarintAux_lt64 bs 0 0 n rest' hu (by simp))

/-- Error clause 1: a truncated varint (every byte has the continuation bit) is an error. -/
theorem varint_truncated : ∀ (bs : Bytes) (i x : Nat), (∀ b ∈ bs, 128 ≤ b.toNat) →
    readUvarintAux i x bs = .error .eof := by
  intro bs
  induction bs with
  | nil => intro i x _; simp [readUvarintAux]
  | cons b tl ih =>
    intro i x h
    have hb := h b (by simp)
    simp only [readUvarintAux, show ¬ b.toNat < 128 by omega, if_false]
    exact ih _ _ (fun c hc => h c (by simp [hc]))

/-- Reading `pre ++ t :: rest` where `pre` are continuation bytes: the terminator `t`
is met at byte index `i + pre.length`. -/
theorem readUvarintAux_pre : ∀ (pre : Bytes) (t : UInt8) (rest : Bytes) (i x : Nat),
    (∀ b ∈ pre, 128 ≤ b.toNat) → t.toNat < 128 →
    ∃ x', readUvarintAux i x (pre ++ t :: rest) =
      if i + pre.length > 9 ∨ (i + pre.length = 9 ∧ t.toNat > 1) then .error .overflow
      else .ok (x' + t.toNat * 2 ^ (7 * (i + pre.length)), rest) := by
  intro pre
  induction pre with
  | nil => intro t rest i x _ ht; exact ⟨x, by simp [readUvarintAux, ht]⟩
  | cons b tl ih =>
    intro t rest i x h ht
    have hb := h b (by simp)
    obtain ⟨x', hx'⟩ := ih t rest (i + 1) (x + b.toNat % 128 * 2 ^ (7 * i))
      (fun c hc => h c (by simp [hc])) ht
    refine ⟨x', ?_⟩
    simp only [List.cons_append, readUvarintAux, show ¬ b.toNat < 128 by omega, if_false]
    rw [hx']
    have : i + 1 + tl.length = i + (b :: tl).length := by simp; omega
    rw [this]

/-- Error clause 2 and 3: longer than ten bytes, or a tenth byte above 1 (overflows 64 bits). -/
theorem varint_overflow (pre : Bytes) (t : UInt8) (rest : Bytes)
    (hpre : ∀ b ∈ pre, 128 ≤ b.toNat) (ht : t.toNat < 128)
    (hbad : pre.length > 9 ∨ (pre.length = 9 ∧ t.toNat > 1)) :
    readVarint (pre ++ t :: rest) = .error .overflow := by
  obtain ⟨x', hx'⟩ := readUvarintAux_pre pre t rest 0 0 hpre ht
  unfold readVarint readUvarint
  rw [hx']
  simp only [Nat.zero_add]
  rw [if_pos hbad]

theorem varint_eof (bs : Bytes) (h : ∀ b ∈ bs, 128 ≤ b.toNat) : readVarint bs = .error .eof := by
  unfold readVarint readUvarint
  rw [varint_truncated bs 0 0 h]

/-- Conversely: every byte string either is all-continuation (EOF) or splits as
`pre ++ t :: rest` with `t` the first byte below 0x80. So the three error clauses are the only errors. -/
theorem bytes_split : ∀ (bs : Bytes), (∀ b ∈ bs, 128 ≤ b.toNat) ∨
    ∃ pre t rest, bs = pre ++ t :: rest ∧ (∀ b ∈ pre, 128 ≤ b.toNat) ∧ t.toNat < 128 := by
  intro bs
  induction bs with
  | nil => left; simp
  | cons b tl ih =>
    by_cases hb : b.toNat < 128
    · right; exact ⟨[], b, tl, by simp, by simp, hb⟩
    · rcases ih with h | ⟨pre, t, rest, rfl, hp, ht⟩
      · left; intro c hc; simp at hc; rcases hc with rfl | hc
        · omega
        · exact h c hc
      · right; refine ⟨b :: pre, t, rest, by simp, ?_, ht⟩
        intro c hc; simp at hc; rcases hc with rfl | hc
        · omega
        · exact hp c hc

theorem varint_errors_complete (bs : Bytes) (e : VErr) (h : readVarint bs = .error e) :
    (e = .eof ∧ ∀ b ∈ bs, 128 ≤ b.toNat) ∨
    (e = .overflow ∧ ∃ pre t rest, bs = pre ++ t :: rest ∧ (∀ b ∈ pre, 128 ≤ b.toNat) ∧
        t.toNat < 128 ∧ (pre.length > 9 ∨ (pre.length = 9 ∧ t.toNat > 1))) := by
  rcases bytes_split bs with hall | ⟨pre, t, rest, rfl, hp, ht⟩
  · left; rw [varint_eof bs hall] at h; cases h; exact ⟨rfl, hall⟩
  · right
    obtain ⟨x', hx'⟩ := readUvarintAux_pre pre t rest 0 0 hp ht
    unfold readVarint readUvarint at h
    rw [hx'] at h
    simp only [Nat.zero_add] at h
    by_cases hbad : (pre.length > 9 ∨ (pre.length = 9 ∧ t.toNat > 1))
    · rw [if_pos hbad] at h
      simp at h
      exact ⟨h.symm, pre, t, rest, rfl, hp, ht, hbad⟩
    · rw [if_neg hbad] at h
      simp at h

/-- Width clause: `IntCodec[T].Read` succeeds exactly when the decoded value fits `T`;
otherwise it is an error — there is no truncating store. -/
theorem width (w : Nat) (bs : Bytes) (v : Int) (rest : Bytes) :
    readInt w bs = .ok (v, rest) ↔ (readVarint bs = .ok (v, rest) ∧ inRange w v) := by
  unfold readInt
  cases hr : readVarint bs with
  | error e => simp
  | ok p =>
    obtain ⟨v', rest'⟩ := p
    by_cases hin : inRange w v'
    · simp [hin]; rintro rfl rfl; exact hin
    · simp [hin]; rintro rfl rfl; exact hin

theorem width_reject (w : Nat) (bs : Bytes) (v : Int) (rest : Bytes)
    (h : readVarint bs = .ok (v, rest)) (hout : ¬ inRange w v) :
    readInt w bs = .error .range := by
  unfold readInt; rw [h]; simp [hout]

theorem inRange_mono {w : Nat} {v : Int} (hw : 1 ≤ w) (hw64 : w ≤ 64) (h : inRange w v) : inRange 64 v := by
  unfold inRange at *
  have h1 : (2:Int) ^ (w - 1) ≤ 2 ^ 63 := by
    have := Nat.pow_le_pow_right (n := 2) (by omega) (show w - 1 ≤ 63 by omega)
    exact_mod_cast this
  omega

/-- Decoding inverts encoding for every value of every supported width (16, 32, 64). -/
theorem int_roundtrip (w : Nat) (hw : 1 ≤ w) (hw64 : w ≤ 64) (v : Int) (hv : inRange w v) (rest : Bytes) :
    readInt w (writeInt w v ++ rest) = .ok (v, rest) := by
  unfold readInt writeInt
  rw [varint_roundtrip v (inRange_mono hw hw64 hv)]
  simp [hv]

/-! ### Floats: IEEE bit patterns, little-endian, bit-exact -/

theorem putLE_length (k n : Nat) : (putLE k n).length = k := by
  induction k generalizing n with
  | zero => rfl
  | succ k ih => simp [putLE, ih]

theorem getLE_putLE (k n : Nat) : getLE (putLE k n) = n % 256 ^ k := by
  induction k generalizing n with
  | zero => simp [putLE, getLE, Nat.mod_one]
  | succ k ih =>
    simp only [putLE, getLE, ih]
    rw [toUInt8_toNat (Nat.mod_lt _ (by omega))]
    rw [Nat.pow_succ, Nat.mul_comm (256 ^ k) 256, Nat.mod_mul]

theorem takeN_append (k : Nat) (a rest : Bytes) (h : a.length = k) :
    takeN k (a ++ rest) = some (a, rest) := by
  unfold takeN
  simp [h.symm]

/-- float: 4 bytes little-endian, round-trips every bit pattern (NaN payloads included). -/
theorem f32_roundtrip (bits : Nat) (h : bits < 2 ^ 32) (rest : Bytes) :
    readF32 (writeF32 bits ++ rest) = some (bits, rest) := by
  unfold readF32 readFixedBits writeF32
  rw [takeN_append 4 _ rest (putLE_length 4 bits)]
  simp [getLE_putLE]; omega

/-- double: 8 bytes little-endian, round-trips every bit pattern. -/
theorem f64_roundtrip (bits : Nat) (h : bits < 2 ^ 64) (rest : Bytes) :
    readF64 (writeF64 bits ++ rest) = some (bits, rest) := by
  unfold readF64 readFixedBits writeF64
  rw [takeN_append 8 _ rest (putLE_length 8 bits)]
  simp [getLE_putLE]; omega

/-- The least significant byte comes first (little-endian). -/
theorem f32_le (bits : Nat) : writeF32 bits =
    [(bits % 256).toUInt8, (bits / 256 % 256).toUInt8, (bits / 256 / 256 % 256).toUInt8,
     (bits / 256 / 256 / 256 % 256).toUInt8] := by
  simp [writeF32, putLE]

/-- float32 fields carried as doubles (`Float32DoubleCodec`): the hardware conversions are
parameters; whenever narrowing inverts widening (true of IEEE-754 for every non-NaN float32,
validated by the correspondence run) the field round-trips exactly. -/
theorem f32_as_double (widen narrow : Nat → Nat) (b : Nat)
    (hw : widen b < 2 ^ 64) (hinv : narrow (widen b) = b) (rest : Bytes) :
    (readF64 (writeF64 (widen b) ++ rest)).map (fun p => (narrow p.1, p.2)) = some (b, rest) := by
  rw [f64_roundtrip _ hw]; simp [hinv]

/-- bool: one byte, 0 or 1; any non-zero byte reads as true. -/
theorem bool_roundtrip (b : Bool) (rest : Bytes) : readBool (writeBool b ++ rest) = some (b, rest) := by
  cases b <;> simp [writeBool, readBool]

/-! ### Zig-zag agrees with the specification's bit-level definition `(n << 1) ^ (n >> 63)` -/

theorem zigzag_spec (v : BitVec 64) :
    zigzag v.toInt = ((v <<< 1) ^^^ (v.sshiftRight 63)).toNat := by
  by_cases hm : v.msb = true
  · have hs : v.sshiftRight 63 = BitVec.allOnes 64 := by
      apply BitVec.eq_of_toInt_eq
      rw [BitVec.toInt_sshiftRight]
      have h1 : v.toInt = (v.toNat : Int) - 2 ^ 64 := by
        rw [BitVec.toInt_eq_msb_cond]; simp [hm]
      have h2 : 2 ^ 63 ≤ v.toNat := by
        have := BitVec.msb_eq_decide v; simp [hm] at this; omega
      have h3 := v.isLt
      simp [Int.shiftRight_eq_div_pow]
      omega
    rw [hs, BitVec.xor_allOnes, BitVec.toNat_not, BitVec.toNat_shiftLeft]
    have h1 : v.toInt = (v.toNat : Int) - 2 ^ 64 := by
      rw [BitVec.toInt_eq_msb_cond]; simp [hm]
    have h2 : 2 ^ 63 ≤ v.toNat := by
      have := BitVec.msb_eq_decide v; simp [hm] at this; omega
    have h3 := v.isLt
    unfold zigzag
    rw [h1]
    simp only [Nat.shiftLeft_eq]
    split <;> omega
  · have hm' : v.msb = false := by simpa using hm
    have hs : v.sshiftRight 63 = 0#64 := by
      apply BitVec.eq_of_toInt_eq
      rw [BitVec.toInt_sshiftRight]
      have h1 : v.toInt = (v.toNat : Int) := by
        rw [BitVec.toInt_eq_msb_cond]; simp [hm']
      have h2 : v.toNat < 2 ^ 63 := by
        have := BitVec.msb_eq_decide v; simp [hm'] at this; omega
      simp [Int.shiftRight_eq_div_pow]
      omega
    rw [hs, BitVec.xor_zero, BitVec.toNat_shiftLeft]
    have h1 : v.toInt = (v.toNat : Int) := by
      rw [BitVec.toInt_eq_msb_cond]; simp [hm']
    have h2 : v.toNat < 2 ^ 63 := by
      have := BitVec.msb_eq_decide v; simp [hm'] at this; omega
    unfold zigzag
    rw [h1]
    simp only [Nat.shiftLeft_eq]
    split <;> omega

/-! ### Non-vacuity: the hypotheses are met by concrete non-trivial values -/
example : inRange 64 (-9223372036854775808) ∧ inRange 16 (-32768) ∧ ¬ inRange 16 32768 := by
  unfold inRange; omega
example : writeVarint (-1) = [1] ∧ writeVarint 64 = [0x80, 0x01] := by
  simp [writeVarint, zigzag, putUvarint]
example : readVarint [0x80, 0x80, 0x80, 0x80, 0x80, 0x80, 0x80, 0x80, 0x80, 0x02] = .error .overflow := by
  simp [readVarint, readUvarint, readUvarintAux]

end Avro.C17
