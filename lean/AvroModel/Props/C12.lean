import AvroModel.Lemmas.Conc
import AvroModel.Generated.LockFacts
/-!
# C12 — Concurrent independent use is race-free and result-equivalent   (PARTIAL BY NATURE)

What is proved here (model: `AvroModel/Conc.lean`, an interleaving semantics of threads, RW-mutexes and plain
shared variables):

* the lock-discipline core: every execution of threads whose programs respect a lock discipline is free of
  data races (`discipline_no_race`, with the two preservation lemmas `lockOK_preserved`, `inv_preserved`),
  critical sections on the same mutex are isolated from each other (`sections_isolated`), the lock-free steps of a
  disciplined thread are both-movers (`lockfree_steps_commute`, `section_step_delays`, `section_step_advances`:
  the commuting half of Lipton's reduction), unlock never faults (`unlock_never_faults`);
* the discipline holds for the library: `all_guarded` evaluates the discipline predicate `Guarded` on the
  table `Generated.lockFacts`, which `factgen` re-extracts from the Go sources on every run (go/ast: every
  access to every package-level variable with the mutexes syntactically held there) — if somebody removes or
  narrows a lock, this theorem stops checking; `library_no_race` composes the two;
* codecs are immutable after construction (`codecs_immutable`), per-call state types are never stored in
  package-level variables (`per_call_state_not_shared`), registry look-ups are unaffected by concurrent
  registrations of other keys (`registry_confluent`).

What is NOT modelled: the Go memory model below lock acquire/release, `sync.Pool` internals (its operations are
atomic steps), the scheduler, aliasing through pointers obtained from package-level variables, the call graph
(a fact row is one access under its syntactic lock set; thread programs are arbitrary sequences of rows).
Those are searched by the race-detector runs of the harness (`harness/conc.go`).
-/
namespace Avro.C12
open Avro.Conc

/-! ## Lock discipline ⇒ race freedom (any program, any discipline) -/

/-- Preservation lemma 1: every step of any program keeps the RW-mutex state consistent
(an exclusive holder excludes shared holders). -/
theorem lockOK_preserved {M V : Type} [DecidableEq M] [DecidableEq V] {σ σ' : St M V} {t : Tid}
    (hs : Step σ t σ') (hl : LockOK σ) : LockOK σ' :=
  step_preserves_lockOK hs hl

/-- Preservation lemma 2: well-bracketed disciplined programs stay disciplined — the invariant "locks
consistent, and every thread's remaining program passes the static check against the locks it really holds"
is preserved by every step. -/
theorem inv_preserved {M V : Type} [DecidableEq M] [DecidableEq V] {L : V → Option M} {σ σ' : St M V} {t : Tid}
    (hs : Step σ t σ') (hi : Inv L σ) : Inv L σ' :=
  step_preserves_inv hs hi

/-- State-level core: in a disciplined state with consistent locks no two threads are simultaneously about to
perform conflicting accesses. -/
theorem disciplined_state_no_race {M V : Type} [DecidableEq M] [DecidableEq V] {L : V → Option M} {σ : St M V}
    (hd : Disciplined L σ) (hl : LockOK σ) : ¬ Race σ :=
  no_race_of_disciplined hd hl

/-- **C12, "free of data races" (model level).** For every discipline `L`, every family of thread programs
that pass the static check (writes under the variable's mutex held exclusively, reads of guarded variables
under it in any mode, unguarded variables never written, well-bracketed lock use), every initial memory and
every interleaving: no reachable state has a data race. -/
theorem discipline_no_race {M V : Type} [DecidableEq M] [DecidableEq V] (L : V → Option M)
    (progs : Tid → List (Act M V)) (mem : V → Nat)
    (hc : ∀ t, Checked L (fun _ => none) (progs t)) :
    ∀ σ, Reachable (init progs mem) σ → ¬ Race σ := by
  intro σ hr
  have hi := reachable_inv (inv_init progs mem hc) hr
  exact no_race_of_disciplined (inv_disciplined hi) hi.lockOK

/-- Non-vacuity of `discipline_no_race`: a writer and a reader of `x` under mutex `0` pass the check. -/
example : ∀ t, Checked (M := Nat) (V := Nat) (fun _ => some 0) (fun _ => none)
    ((fun t => if t = 0 then [.acq 0 .ex, .wr 7 1, .rel 0] else if t = 1 then [.acq 0 .sh, .rd 7, .rel 0] else []) t) := by
  intro t
  by_cases h0 : t = 0
  · subst h0; simp [Checked, run, stepHeld, upd]
  · by_cases h1 : t = 1
    · subst h1; simp [Checked, run, stepHeld, upd]
    · simp [h0, h1, Checked, run]

/-- `Race` is not vacuous: the same two accesses without the mutex race in the initial state. -/
example : Race (init (M := Nat) (V := Nat)
    (fun t => if t = 0 then [.wr 7 1] else if t = 1 then [.rd 7] else []) (fun _ => 0)) :=
  ⟨0, 1, .wr 7 1, .rd 7, by decide, rfl, rfl, rfl⟩

/-- Isolation of critical sections: in every reachable state of checked programs, while `t` holds `m`
exclusively no other thread is about to read or write a variable guarded by `m`; while `t` holds `m` shared no
other thread is about to write one. (Hence everything a thread reads or writes inside an exclusive section
on `m` is changed by nobody else during the section: sections on the same mutex do not overlap in effect.) -/
theorem sections_isolated {M V : Type} [DecidableEq M] [DecidableEq V] (L : V → Option M)
    (progs : Tid → List (Act M V)) (mem : V → Nat) (hc : ∀ t, Checked L (fun _ => none) (progs t))
    {σ : St M V} (hr : Reachable (init progs mem) σ) {t u : Tid} {m : M} {md : Mode}
    (ht : holds σ t m = some md) (hne : t ≠ u) {a : Act M V} (hn : next σ u = some a) :
    (∀ x v, a = .wr x v → L x ≠ some m) ∧ (md = .ex → ∀ x, a = .rd x → L x ≠ some m) :=
  section_isolated (reachable_inv (inv_init progs mem hc) hr) ht hne hn

/-- **Sequential-consistency style corollary (movers).** In every reachable state of checked programs, a
lock-free step (plain read/write, atomic or local step) of thread `t` and an adjacent step of any other thread
`u` commute, in either order, to the *same* final state (memory, read logs, lock state, programs). No
independence hypothesis is needed: the discipline excludes the conflicting combinations. -/
theorem lockfree_steps_commute {M V : Type} [DecidableEq M] [DecidableEq V] (L : V → Option M)
    (progs : Tid → List (Act M V)) (mem : V → Nat) (hc : ∀ t, Checked L (fun _ => none) (progs t))
    {σ : St M V} (hr : Reachable (init progs mem) σ) {t u : Tid} (hne : t ≠ u)
    (hfree : ∀ a, next σ t = some a → a.isLockOp = false) {σ₁ σ₂ : St M V} :
    (Step σ t σ₁ → Step σ₁ u σ₂ → ∃ σ₁', Step σ u σ₁' ∧ Step σ₁' t σ₂) ∧
    (Step σ u σ₁ → Step σ₁ t σ₂ → ∃ σ₁', Step σ t σ₁' ∧ Step σ₁' u σ₂) :=
  have hi := reachable_inv (inv_init progs mem hc) hr
  ⟨fun h1 h2 => lockfree_right_mover hi hne h1 h2 hfree, fun h1 h2 => lockfree_left_mover hi hne h1 h2 hfree⟩

/-- Iterated: a lock-free step of `t` (e.g. an access inside its critical section) followed by any finite
sequence of steps of other threads can be postponed after all of them, reaching the same state … -/
theorem section_step_delays {M V : Type} [DecidableEq M] [DecidableEq V] (L : V → Option M)
    (progs : Tid → List (Act M V)) (mem : V → Nat) (hc : ∀ t, Checked L (fun _ => none) (progs t))
    {σ σ₁ σ₂ : St M V} (hr : Reachable (init progs mem) σ) {t : Tid}
    (h1 : Step σ t σ₁) (hs : OtherSteps t σ₁ σ₂) (hfree : ∀ a, next σ t = some a → a.isLockOp = false) :
    ∃ σ', OtherSteps t σ σ' ∧ Step σ' t σ₂ :=
  lockfree_step_delays (reachable_inv (inv_init progs mem hc) hr) h1 hs hfree

/-- … and a lock-free step of `t` preceded by steps of other threads can be brought forward before all of them.
Together: the steps of `t` between its `acq m` and its `rel m` can be gathered into one uninterrupted block
without changing the final state, i.e. every execution is equivalent to one in which that critical section
runs without interleaving. (The full reduction theorem — a single serial order for *all* sections of an
execution — is not proved here.) -/
theorem section_step_advances {M V : Type} [DecidableEq M] [DecidableEq V] (L : V → Option M)
    (progs : Tid → List (Act M V)) (mem : V → Nat) (hc : ∀ t, Checked L (fun _ => none) (progs t))
    {σ σ₁ σ₂ : St M V} (hr : Reachable (init progs mem) σ) {t : Tid}
    (hs : OtherSteps t σ σ₁) (h2 : Step σ₁ t σ₂) (hfree : ∀ a, next σ t = some a → a.isLockOp = false) :
    ∃ σ', Step σ t σ' ∧ OtherSteps t σ' σ₂ :=
  lockfree_step_advances (reachable_inv (inv_init progs mem hc) hr) hs h2 hfree

/-- Non-vacuity of the mover theorems: two checked threads that both read `x`; thread 0 then thread 1 can step. -/
example : (∀ t, Checked (M := Nat) (V := Nat) (fun _ => none) (fun _ => none) ((fun t => if t ≤ 1 then [.rd 7] else []) t)) ∧
    ∃ σ₁ σ₂, Step (init (M := Nat) (V := Nat) (fun t => if t ≤ 1 then [.rd 7] else []) (fun _ => 5)) 0 σ₁ ∧ Step σ₁ 1 σ₂ := by
  refine ⟨?_, _, _, Step.rd (x := 7) (rest := []) rfl, Step.rd (x := 7) (rest := []) rfl⟩
  intro t
  by_cases h : t ≤ 1 <;> simp [h, Checked, run, stepHeld]

/-- In executions of checked programs `Unlock`/`RUnlock` is always enabled: the thread does hold the mutex
(Go would abort with "unlock of unlocked mutex" otherwise). -/
theorem unlock_never_faults {M V : Type} [DecidableEq M] [DecidableEq V] (L : V → Option M)
    (progs : Tid → List (Act M V)) (mem : V → Nat) (hc : ∀ t, Checked L (fun _ => none) (progs t))
    {σ : St M V} (hr : Reachable (init progs mem) σ) {t : Tid} {m : M} {rest : List (Act M V)}
    (hp : σ.prog t = .rel m :: rest) : ∃ σ', Step σ t σ' :=
  rel_enabled (reachable_inv (inv_init progs mem hc) hr) hp

/-! ## The discipline holds for the library (regenerated facts) -/

/-- **The tie to the source.** The discipline predicate evaluates to `true` on the table re-extracted from the
Go sources by `factgen` on this run. -/
theorem all_guarded : Guarded Generated.lockFacts = true := by decide +kernel

/-- `Guarded` lifted to a statement about every row (finite table ⇒ a proof, not a sample): every access
outside initialisation to a plain package-level variable `x` that is ever written after initialisation is made
holding `lockOf x` — exclusively if it is a write. -/
theorem guarded_rows (f : LockFacts) (hg : Guarded f = true) :
    ∀ a ∈ f.accesses, a.atInit = false → a.syncCall = false →
      (a.write = true → ∃ m, lockOf f a.var = some m ∧ ∃ h ∈ a.held, h.mutex = m ∧ h.excl = true) ∧
      (∀ m, lockOf f a.var = some m → ∃ h ∈ a.held, h.mutex = m) := by
  intro a ha hi hs
  have hlive := mem_liveAccesses ha hi
  constructor
  · intro hw
    simp only [Guarded, Bool.and_eq_true, List.all_eq_true] at hg
    have hrow := hg.2 a ha
    simp only [rowOK, Bool.and_eq_true, List.any_eq_true, beq_iff_eq, decide_eq_true_eq] at hrow
    obtain ⟨⟨v, hv, hname⟩, _⟩ := hrow
    have hvar := hg.1 v hv
    simp only [varOK, hname] at hvar
    split at hvar
    · have := (List.all_eq_true.mp hvar) a hlive
      rw [hs] at this; cases this
    · simp only [Bool.and_eq_true, Bool.or_eq_true] at hvar
      have hany : (liveAccesses f a.var).any (·.write) = true := List.any_eq_true.mpr ⟨a, hlive, hw⟩
      have hsome : (lockOf f a.var).isSome = true := by
        rcases hvar.2 with h | h
        · rw [hany] at h; cases h
        · exact h
      obtain ⟨m, hm⟩ := Option.isSome_iff_exists.mp hsome
      obtain ⟨hl, hmem, hlm, hex⟩ := accessOK_held (lockOf_some hm a hlive)
      exact ⟨m, hm, hl, hmem, hlm, hex hw⟩
  · intro m hm
    obtain ⟨hl, hmem, hlm, _⟩ := accessOK_held (lockOf_some hm a hlive)
    exact ⟨hl, hmem, hlm⟩

/-- The lifted statement for the library's regenerated table. -/
theorem all_guarded_rows :
    ∀ a ∈ Generated.lockFacts.accesses, a.atInit = false → a.syncCall = false →
      (a.write = true → ∃ m, lockOf Generated.lockFacts a.var = some m ∧ ∃ h ∈ a.held, h.mutex = m ∧ h.excl = true) ∧
      (∀ m, lockOf Generated.lockFacts a.var = some m → ∃ h ∈ a.held, h.mutex = m) :=
  guarded_rows _ all_guarded

/-- Every thread program the facts describe (any sequence of the library's accesses, each under its recorded
lock set) passes the static check of the discipline `lockOf facts`. -/
theorem guarded_programs_checked (f : LockFacts) (hg : Guarded f = true) {p : List (Act String String)}
    (hp : FromFacts f p) : Checked (lockOf f) (fun _ => none) p := by
  simp [Checked, fromFacts_checked hg hp]

/-- **Composition: the library's accesses never race (model level).** Any number of threads, each performing any
sequence of the library's package-level accesses as extracted from the source on this run, under any
interleaving. -/
theorem library_no_race (progs : Tid → List (Act String String)) (mem : String → Nat)
    (hp : ∀ t, FromFacts Generated.lockFacts (progs t)) :
    ∀ σ, Reachable (init progs mem) σ → ¬ Race σ :=
  discipline_no_race (lockOf Generated.lockFacts) progs mem
    (fun t => guarded_programs_checked _ all_guarded (hp t))

/-- The discipline predicate is not trivially true: dropping the read lock around a registry look-up, or
writing a package-level cache without a lock, makes it false. -/
example : Guarded
    { vars := [⟨"p", "p.mu", "sync.RWMutex", "RWMutex", false⟩, ⟨"p", "p.reg", "map", "", true⟩],
      accesses := [⟨"p.Register", "p.reg", true, false, false, [⟨"p.mu", true⟩]⟩,
                   ⟨"p.build", "p.reg", false, false, false, []⟩],
      codecMethods := [], perCall := [] } = false := by decide

example : Guarded
    { vars := [⟨"p", "p.cache", "Codec", "", false⟩],
      accesses := [⟨"p.build", "p.cache", true, false, false, []⟩],
      codecMethods := [], perCall := [] } = false := by decide

example : Guarded
    { vars := [⟨"p", "p.mu", "sync.RWMutex", "RWMutex", false⟩, ⟨"p", "p.reg", "map", "", true⟩],
      accesses := [⟨"p.Register", "p.reg", true, false, false, [⟨"p.mu", true⟩]⟩,
                   ⟨"p.build", "p.reg", false, false, false, [⟨"p.mu", false⟩]⟩],
      codecMethods := [], perCall := [] } = true := by decide

/-- The regenerated table is not empty and contains guarded (written) variables. -/
example : (Generated.lockFacts.vars.filter fun v => (lockOf Generated.lockFacts v.name).isSome).length ≥ 1 := by
  decide +kernel

/-! ## Codecs and per-call state -/

/-- Codecs hold only immutable configuration after construction: no method Read/Skip/New/Omit/Write of any
type implementing `Codec` assigns through its receiver or writes a package-level variable (so one codec
may be used by any number of goroutines). -/
theorem codecs_immutable :
    ∀ m ∈ Generated.codecMethods, m.assignsThroughReceiver = false ∧ m.writesPackageState = false := by
  have h : (Generated.codecMethods.all fun m => !m.assignsThroughReceiver && !m.writesPackageState) = true := by
    decide +kernel
  intro m hm
  have := (List.all_eq_true.mp h) m hm
  simpa using this

example : Generated.codecMethods ≠ [] := by decide +kernel

/-- Per-call state (`deflate`, `snappyCodec`, `Encoder`, `ReadBuf`, `WriteBuf`, `FileWriter`) is never stored in
a package-level variable: it is reachable only from the call (or the user-owned object) that created it. -/
theorem per_call_state_not_shared :
    ∀ p ∈ Generated.perCallTypes, p.storedInPkgVar = false := by
  have h : (Generated.perCallTypes.all fun p => !p.storedInPkgVar) = true := by decide +kernel
  intro p hp
  have := (List.all_eq_true.mp h) p hp
  simpa using this

example : Generated.perCallTypes ≠ [] := by decide +kernel

/-! ## The registries as data -/

/-- A look-up of key `k` in a lock-guarded map is unaffected by any sequence of concurrent registrations of keys
other than `k` (whatever their order: registrations are serialised by the exclusive lock). -/
theorem registry_confluent {K β : Type} [DecidableEq K] (k : K) (ins : List (K × β)) (r : List (K × β))
    (h : ∀ e ∈ ins, e.1 ≠ k) :
    regLookup k (ins.foldl (fun r e => regInsert e.1 e.2 r) r) = regLookup k r := by
  induction ins generalizing r with
  | nil => rfl
  | cons e ins ih =>
    simp only [List.foldl_cons]
    rw [ih _ (fun e' he' => h e' (List.mem_cons_of_mem _ he'))]
    have : e.1 ≠ k := h e (List.mem_cons_self ..)
    simp [regLookup, regInsert, this]

/-- A registration is seen by later look-ups of its key. -/
theorem registry_lookup_insert {K β : Type} [DecidableEq K] (k : K) (v : β) (r : List (K × β)) :
    regLookup k (regInsert k v r) = some v := by
  simp [regLookup, regInsert]

/-- Registrations of different keys commute (any serial order gives the same look-ups). -/
theorem registry_inserts_commute {K β : Type} [DecidableEq K] (a b k : K) (va vb : β) (r : List (K × β))
    (h : a ≠ b) :
    regLookup k (regInsert a va (regInsert b vb r)) = regLookup k (regInsert b vb (regInsert a va r)) := by
  by_cases ha : a = k <;> by_cases hb : b = k <;> simp_all [regLookup, regInsert]

example : regLookup 2 ([(1, "x"), (3, "y")].foldl (fun r e => regInsert e.1 e.2 r) [(2, "z")]) = some "z" := by
  decide

end Avro.C12
