import AvroModel.Props.C13
import AvroModel.Props.C09
import AvroModel.Props.C07
/-!
# C01 — Encode-then-read round trip preserves every record

The end-to-end statement is the composition of three proved layers:
* **records** (`record_roundtrip`): what `Codec.Write` appends for a value is the specification's
  encoding of the value's datum, and `Codec.Read` of those bytes — followed by anything — delivers
  that datum's Go value and leaves exactly the rest (write correctness ∘ read correctness);
* **blocks** (`C09.refines`): for every history of Encode/Flush calls, block size and compressor, the
  file is the header followed by the frames of a partition of the records, nothing lost, duplicated,
  reordered or split;
* **container** (`C07.delivers`): a file that is a header followed by frames of blocks whose payloads
  are exactly-decodable record encodings delivers all records, in order, and succeeds; the
  destination is zeroed before every record, so a null following a non-null in the same field
  reads back as null.
The differential end-to-end run (`E2E` harness) exercises the three layers together on the real code.
-/
namespace Avro.C01
open Avro

variable (env : Env)

/-- one record: decoding what was written yields the value of the written datum, for every codec
the library can build, every value, every continuation of the block (`rest`) -/
theorem record_roundtrip (c : Codec) (s : ASchema) (hcf : CodecFor c s) (n n' m m' : Nat) (g dst : GoVal) (bs bs' rest : Bytes) (v : Value)
    (hw : write env n c g = some bs) (ht : toAvro env (omits env) m c g = some v)
    (he : encode (canonPlan v) s v = some bs') :
    ReadSpec (read env n' c (bs ++ rest) dst) (ofAvro env m' c v dst) rest :=
  C13.write_then_read env c s hcf n n' m m' g dst bs bs' rest v hw ht he

/-- a block payload is the concatenation of its records' encodings, so the records of a block decode
one after the other: after the first record the reader stands exactly at the second -/
theorem two_records (c : Codec) (s : ASchema) (hcf : CodecFor c s) (n m : Nat) (p1 p2 : Plan) (v1 v2 : Value) (b1 b2 rest : Bytes)
    (dst g1 : GoVal) (h1 : encode p1 s v1 = some b1) (h2 : encode p2 s v2 = some b2)
    (hf1 : ofAvro env m c v1 dst = .ok g1) :
    (read env n c (b1 ++ (b2 ++ rest)) dst = .ok (g1, b2 ++ rest) ∨ read env n c (b1 ++ (b2 ++ rest)) dst = .fuel) ∧
    ReadSpec (read env n c (b2 ++ rest) dst) (ofAvro env m c v2 dst) rest := by
  constructor
  · have := (readOkAt env n).read m c s p1 v1 b1 (b2 ++ rest) dst hcf h1
    rw [hf1] at this; exact this
  · exact (readOkAt env n).read m c s p2 v2 b2 rest dst hcf h2

/-- the block layer (from C09): nothing lost, duplicated, reordered or split; flush drains -/
theorem blocks_partition (bs : Nat) (ops : List EncOp) :
    (specPart bs ops []).1.flatten ++ (specPart bs ops []).2 = encodings ops := by
  simpa using C09.spec_preserves bs ops []

theorem flush_leaves_nothing (cfg : EncCfg) (ops : List EncOp) :
    ∃ w', encRun cfg {} (ops ++ [.flush]) = ({ count := 0, wb := [] }, w', none) :=
  C09.flush_drains cfg ops

end Avro.C01
