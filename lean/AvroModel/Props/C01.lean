import AvroModel.Props.C13
import AvroModel.Props.C09
import AvroModel.Props.C07
import AvroModel.Lemmas.EndToEnd
import AvroModel.Lemmas.Crash
import AvroModel.Lemmas.RoundTrip
import AvroModel.Lemmas.NormSpec
import AvroModel.Lemmas.ReadBudget
import AvroModel.Lemmas.GoBudget
import AvroModel.Props.C03
/-!
# C01 — Encode-then-read round trip preserves every record

The end-to-end statement is the composition of three proved layers:
* **records** (`record_roundtrip`): what `Codec.Write` appends for a value is the specification's
  encoding of the value's datum, and `Codec.Read` of those bytes — followed by anything — delivers
  that datum's Go value and leaves exactly the rest (write correctness ∘ read correctness);
* **blocks** (`C09.refines`): for every history of Encode/Flush calls, block size and compressor, the
  file is the header followed by the frames of a partition of the records, nothing lost, duplicated,
  reordered or split;
* **container** (`C07.delivers`): a file that is a header followed by frames of blocks whose payloads
  are exactly-decodable record encodings delivers all records, in order, and succeeds; the
  destination is zeroed before every record, so a null following a non-null in the same field
  reads back as null.
`file_roundtrip` composes the last two formally: the bytes the encoder model writes for any call
history are read back by the container-reader model as exactly the written records.
The differential end-to-end run (`E2E` harness) exercises the three layers together on the real code.
-/
namespace Avro.C01
open Avro

variable (env : Env)

/-- one record: decoding what was written yields the value of the written datum, for every codec
the library can build, every value, every continuation of the block (`rest`) -/
theorem record_roundtrip (c : Codec) (s : ASchema) (hcf : CodecFor c s) (n n' m m' : Nat) (g dst : GoVal) (bs bs' rest : Bytes) (v : Value)
    (hw : write env n c g = some bs) (ht : toAvro env (omits env) m c g = some v)
    (he : encode (canonPlan v) s v = some bs') :
    ReadSpec (read env n' c (bs ++ rest) dst) (ofAvro env m' c v dst) rest :=
  C13.write_then_read env c s hcf n n' m m' g dst bs bs' rest v hw ht he

/-- the same fact in the shape `file_roundtrip` asks of a record decoder: at every step budget that
suffices for the record, the written bytes decode exactly to the written datum's value -/
theorem record_exact (c : Codec) (s : ASchema) (hcf : CodecFor c s) (n n' m m' : Nat) (g dst g' : GoVal) (bs bs' rest : Bytes) (v : Value)
    (hw : write env n c g = some bs) (ht : toAvro env (omits env) m c g = some v)
    (he : encode (canonPlan v) s v = some bs') (hf : ofAvro env m' c v dst = .ok g')
    (hnf : read env n' c (bs ++ rest) dst ≠ .fuel) :
    read env n' c (bs ++ rest) dst = .ok (g', rest) := by
  have h := record_roundtrip env c s hcf n n' m m' g dst bs bs' rest v hw ht he
  rw [hf] at h
  rcases h with h | h
  · exact h
  · exact absurd h hnf

/-- `record_exact` with an explicit step budget instead of the hypothesis "did not run out of
budget": every `n' ≥ readBudget c v = Codec.sz c + 2 * Value.sz v + 2` (a function of the codec and
the written datum only) decodes the written bytes exactly, whatever follows them. -/
theorem record_exact_budget (c : Codec) (s : ASchema) (hcf : CodecFor c s) (n n' m m' : Nat) (g dst g' : GoVal) (bs bs' rest : Bytes) (v : Value)
    (hw : write env n c g = some bs) (ht : toAvro env (omits env) m c g = some v)
    (he : encode (canonPlan v) s v = some bs') (hf : ofAvro env m' c v dst = .ok g')
    (hn : readBudget c v ≤ n') :
    read env n' c (bs ++ rest) dst = .ok (g', rest) := by
  have := C13.write_valid env c s hcf n m g bs bs' v hw ht he
  subst this
  exact read_exact env hcf he hn rest hf

/-- a block payload is the concatenation of its records' encodings, so the records of a block decode
one after the other: after the first record the reader stands exactly at the second -/
theorem two_records (c : Codec) (s : ASchema) (hcf : CodecFor c s) (n m : Nat) (p1 p2 : Plan) (v1 v2 : Value) (b1 b2 rest : Bytes)
    (dst g1 : GoVal) (h1 : encode p1 s v1 = some b1) (h2 : encode p2 s v2 = some b2)
    (hf1 : ofAvro env m c v1 dst = .ok g1) :
    (read env n c (b1 ++ (b2 ++ rest)) dst = .ok (g1, b2 ++ rest) ∨ read env n c (b1 ++ (b2 ++ rest)) dst = .fuel) ∧
    ReadSpec (read env n c (b2 ++ rest) dst) (ofAvro env m c v2 dst) rest := by
  constructor
  · have := (readOkAt env n).read m c s p1 v1 b1 (b2 ++ rest) dst hcf h1
    rw [hf1] at this; exact this
  · exact (readOkAt env n).read m c s p2 v2 b2 rest dst hcf h2

/-- the block layer (from C09): nothing lost, duplicated, reordered or split; flush drains -/
theorem blocks_partition (bs : Nat) (ops : List EncOp) :
    (specPart bs ops []).1.flatten ++ (specPart bs ops []).2 = encodings ops := by
  simpa using C09.spec_preserves bs ops []

theorem flush_leaves_nothing (cfg : EncCfg) (ops : List EncOp) :
    ∃ w', encRun cfg {} (ops ++ [.flush]) = ({ count := 0, wb := [] }, w', none) :=
  C09.flush_drains cfg ops

/-- **C01, whole files**: for every history of `Encode`/`Flush` calls ended by a `Flush`, every block
size, every compressor undone by the reader's decompressor, every block payload of representable length, every record decoder that decodes each
written record exactly (`record_roundtrip` is that fact for the codecs the library builds), the file
the writer produced is read back as the written records — same number, same order, same values —
and reading succeeds. No hypothesis mentions the file's bytes. -/
theorem file_roundtrip {α ε : Type} (cfg : EncCfg) (ops : List EncOp)
    {X : File.Ext α} {fuel : Nat} {H : File.Header} {sel : File.CodecSel} {rc : File.RecCodec α}
    (hh : File.ValidHeader X fuel cfg.header H sel rc) (hs : H.sync = cfg.sync)
    (hcomp : ∀ x, File.decompress X sel (cfg.compress x) = .ok x)
    (hsmall : ∀ blk ∈ (specPart cfg.blockSize (ops ++ [.flush]) []).1, (cfg.compress blk.flatten).length ≤ File.maxLen)
    (dec : Bytes → α) (hdec : ∀ r ∈ encodings ops, ∀ rest, rc.decode (r ++ rest) = .ok (dec r, rest))
    (hn : (encodings ops).length < fuel) (hn63 : (encodings ops).length < 2 ^ 63)
    (cb : Nat → Option ε) (hcb : ∀ i, cb i = none) :
    ∃ s' w', encRun cfg {} (ops ++ [.flush]) = (s', w', none) ∧ s'.count = 0 ∧ s'.wb = [] ∧
      File.readFile X fuel cb w'.accepted = ⟨(encodings ops).map dec, .ok⟩ :=
  EndToEnd.write_then_read cfg ops hh hs hcomp hsmall dec hdec hn hn63 cb hcb

/-! ### Non-vacuity: a concrete history, written and read by the two models -/

def exCfg : EncCfg := { blockSize := 2, compress := id, sync := C07.exSync, header := C07.exHdr }
def exOps : List EncOp := [.encode [1], .flush, .encode [2], .encode [3], .encode [4]]

example : File.readFile C07.exX 9 (fun _ => (none : Option Unit)) (encRun exCfg {} (exOps ++ [.flush])).2.1.accepted
    = ⟨[1, 2, 3, 4], .ok⟩ := by decide +kernel

/-- the hypotheses of `file_roundtrip` are met by that history -/
example : ∃ s' w', encRun exCfg {} (exOps ++ [.flush]) = (s', w', none) ∧ s'.count = 0 ∧ s'.wb = [] ∧
    File.readFile C07.exX 9 (fun _ => (none : Option Unit)) w'.accepted = ⟨[1, 2, 3, 4], .ok⟩ := by
  have hh : File.ValidHeader C07.exX 9 exCfg.header
      { «meta» := File.metaOf [[(File.kSchema, [0x22]), (File.kCodec, File.vNull)]], sync := C07.exSync } .null
      { decode := fun bs => match bs with | [] => .err | b :: r => .ok (b, r) } := by
    refine C07.valid_mkHeader C07.exX _ C07.exSync 9 ?_ (by decide) (by decide) .null _ (by decide) ⟨[0x22], by decide, rfl⟩
    intro es hes
    simp only [List.mem_singleton] at hes
    subst hes
    refine ⟨by simp, by decide, ?_⟩
    intro kv hkv
    simp only [List.mem_cons, List.not_mem_nil, or_false] at hkv
    rcases hkv with rfl | rfl <;> exact ⟨by decide, by decide⟩
  have := file_roundtrip (ε := Unit) exCfg exOps hh rfl (fun x => rfl)
    (by decide) (fun r => r.headD 0)
    (by intro r hr rest; simp [exOps, encodings] at hr; rcases hr with rfl | rfl | rfl | rfl <;> rfl)
    (by decide) (by decide) (fun _ => none) (fun _ => rfl)
  simpa [exOps, encodings] using this

/-- **C01, whole files, with the writer's header.** `file_roundtrip` for the header the library writes:
`cfg.header` is `mkHeader` of the single metadata block `avro.schema = js`, `avro.codec = name` with the
writer's 16-byte sync marker (`Lemmas/File.lean`; the specification-side reader reads it back as those
entries: `C02.spec_reader_reads_header`). The abstract hypothesis "`cfg.header` is a header the reader
accepts" is replaced by what it takes for that header: the schema JSON builds the record decoder
(`X.build js = some rc`) and `name` is one of `null`/`deflate`/`snappy`, selecting `sel`
(`Crash.CodecName`). The other hypotheses and the conclusion are those of `file_roundtrip`. -/
theorem file_roundtrip_mkHeader {α ε : Type} (cfg : EncCfg) (ops : List EncOp) (js name : Bytes)
    (hhdr : cfg.header = File.mkHeader [[(File.kSchema, js), (File.kCodec, name)]] cfg.sync)
    (hsync : cfg.sync.length = 16) (hjs : js.length ≤ File.maxLen)
    {X : File.Ext α} {fuel : Nat} {sel : File.CodecSel} {rc : File.RecCodec α}
    (hname : Crash.CodecName name sel) (hbuild : X.build js = some rc)
    (hcomp : ∀ x, File.decompress X sel (cfg.compress x) = .ok x)
    (hsmall : ∀ blk ∈ (specPart cfg.blockSize (ops ++ [.flush]) []).1, (cfg.compress blk.flatten).length ≤ File.maxLen)
    (dec : Bytes → α) (hdec : ∀ r ∈ encodings ops, ∀ rest, rc.decode (r ++ rest) = .ok (dec r, rest))
    (hf : 1 < fuel) (hn : (encodings ops).length < fuel) (hn63 : (encodings ops).length < 2 ^ 63)
    (cb : Nat → Option ε) (hcb : ∀ i, cb i = none) :
    ∃ s' w', encRun cfg {} (ops ++ [.flush]) = (s', w', none) ∧ s'.count = 0 ∧ s'.wb = [] ∧
      File.readFile X fuel cb w'.accepted = ⟨(encodings ops).map dec, .ok⟩ := by
  have hh : File.ValidHeader X fuel cfg.header
      { «meta» := File.metaOf [Crash.writerMeta js name], sync := cfg.sync } sel rc := by
    rw [hhdr]
    exact Crash.valid_writerHeader X js name cfg.sync fuel hf hsync hjs sel rc hname hbuild
  exact file_roundtrip cfg ops hh rfl hcomp hsmall dec hdec hn hn63 cb hcb

/-- the hypotheses of `file_roundtrip_mkHeader` are met by the history above (`exCfg.header = C07.exHdr`
is such a header: schema `"`, codec null) -/
example : ∃ s' w', encRun exCfg {} (exOps ++ [.flush]) = (s', w', none) ∧ s'.count = 0 ∧ s'.wb = [] ∧
    File.readFile C07.exX 9 (fun _ => (none : Option Unit)) w'.accepted = ⟨[1, 2, 3, 4], .ok⟩ := by
  have := file_roundtrip_mkHeader (ε := Unit) (X := C07.exX) (fuel := 9) (sel := .null)
    (rc := { decode := fun bs => match bs with | [] => .err | b :: r => .ok (b, r) })
    exCfg exOps [0x22] File.vNull rfl (by decide) (by decide) (Or.inl ⟨rfl, rfl⟩) rfl (fun x => rfl)
    (by decide) (fun r => r.headD 0)
    (by intro r hr rest; simp [exOps, encodings] at hr; rcases hr with rfl | rfl | rfl | rfl <;> rfl)
    (by decide) (by decide) (by decide) (fun _ => none) (fun _ => rfl)
  simpa [exOps, encodings] using this

/-! ### Values: what is read back is the normal form of what was written -/

/-- **C01, values**: a value `g` written with `Codec.Write` and read back with `Codec.Read` into the
zeroed destination (the container reader zeroes it before every record) comes back as
`normCodec … g` — the codec-directed normal form of `Lemmas/RoundTrip.lean`, which identifies nil and
empty maps, replaces an omitted (omitempty-zero, nil, invalid-wrapper) union member by the zero
value, truncates times exactly as the logical type does, and is otherwise the identity
(`normCodec_idem`, `normCodec_plain`) — followed by exactly the rest of the block.
Hypotheses: the codec is one the library builds for schema `s`; the write succeeded; the
specification defines the encoding of the written datum (the value is within the schema type's
range); the side conditions `RTOk` (integers within their Go width, Go maps have distinct keys,
well-formed record targets, representable times — none of them about nil/empty, omitempty or
wrapper validity); and the read budget `n'` is not exhausted. -/
theorem value_roundtrip (c : Codec) (s : ASchema) (hcf : CodecFor c s) (n n' m m' : Nat) (g : GoVal)
    (bs bs' rest : Bytes) (v : Value)
    (hw : write env n c g = some bs) (ht : toAvro env (omits env) m c g = some v)
    (he : encode (canonPlan v) s v = some bs') (hok : RTOk env m' c g)
    (hnf : read env n' c (bs ++ rest) (Codec.zero env c) ≠ .fuel) :
    read env n' c (bs ++ rest) (Codec.zero env c) = .ok (normCodec env m' c g, rest) :=
  record_exact env c s hcf n n' m m' g _ _ bs bs' rest v hw ht he (roundTrip env m' m c g v ht hok) hnf

/-- **C01, values, explicit budget**: `value_roundtrip` for every read budget
`n' ≥ readBudget c v` (`v` the written datum); no hypothesis mentions `.fuel`. -/
theorem value_roundtrip_budget (c : Codec) (s : ASchema) (hcf : CodecFor c s) (n n' m m' : Nat) (g : GoVal)
    (bs bs' rest : Bytes) (v : Value)
    (hw : write env n c g = some bs) (ht : toAvro env (omits env) m c g = some v)
    (he : encode (canonPlan v) s v = some bs') (hok : RTOk env m' c g)
    (hn : readBudget c v ≤ n') :
    read env n' c (bs ++ rest) (Codec.zero env c) = .ok (normCodec env m' c g, rest) :=
  record_exact_budget env c s hcf n n' m m' g _ _ bs bs' rest v hw ht he (roundTrip env m' m c g v ht hok) hn

/-- the same with a budget computed from the written Go value alone:
`goBudget c g = Codec.sz c + 2 * ((Codec.sz c + 1) * (GoVal.sz g + 1)) + 2` -/
theorem value_roundtrip_go (c : Codec) (s : ASchema) (hcf : CodecFor c s) (n n' m m' : Nat) (g : GoVal)
    (bs bs' rest : Bytes) (v : Value)
    (hw : write env n c g = some bs) (ht : toAvro env (omits env) m c g = some v)
    (he : encode (canonPlan v) s v = some bs') (hok : RTOk env m' c g)
    (hn : goBudget c g ≤ n') :
    read env n' c (bs ++ rest) (Codec.zero env c) = .ok (normCodec env m' c g, rest) :=
  value_roundtrip_budget env c s hcf n n' m m' g bs bs' rest v hw ht he hok
    (Nat.le_trans (readBudget_le_goBudget env _ ht) hn)

/-! non-vacuity: the codec the library builds for `struct { M map[string]int64; P *string; Q *[]int32 }` with a one-entry map, a
non-nil string pointer and a nil slice pointer (which reads back as a pointer to the empty slice) -/

def exCodec : Codec :=
  .record [.map true [] [], .ptr none, .ptr none]
    [.map (.int 64 false) false, .unionOne (.pointer (.string false)) 1, .pointer (.array (.int 32 false) false)]
    [some 0, some 1, some 2]
def exSchema : ASchema := .record ["M", "P", "Q"] [.map .long, .union [.null, .string], .array .int]
def exVal : GoVal := .struct [.map false [[97]] [.int 7], .ptr (some (.str [104, 105])), .ptr none]
def exDatum : Value := .record [.map [[97]] [.int 7], .union 1 (.bytes [104, 105]), .array []]
def exBytes : Bytes := [2, 2, 97, 14, 0, 2, 4, 104, 105, 0]

private def isFuel {α : Type} : Outcome α → Bool | .fuel => true | _ => false
private theorem ne_fuel_of {α : Type} {o : Outcome α} (h : isFuel o = false) : o ≠ .fuel := by
  intro e; subst e; simp [isFuel] at h

example : read toyEnv 10 exCodec (exBytes ++ [255]) (Codec.zero toyEnv exCodec)
    = .ok (.struct [.map false [[97]] [.int 7], .ptr (some (.str [104, 105])), .ptr (some (.slice []))], [255]) := by
  have hcf : CodecFor exCodec exSchema :=
    .record (.cons (.map .intL) (.cons (.unionOne1 (.pointer .string)) (.cons (.pointer (.array .intI)) .nil))) rfl
  have := value_roundtrip toyEnv exCodec exSchema hcf 10 10 10 5 exVal exBytes exBytes [255] exDatum
    (by decide +kernel) (by rfl) (by decide +kernel)
    (by simp [RTOk, exCodec, exVal, FieldsOk, Codec.zero, inRange, Codec.ptrDepth])
    (ne_fuel_of (by decide +kernel))
  simpa [normCodec, exCodec, exVal, normFieldsWith, listSet, Codec.stripPtr, nilForm, omits] using this

/-- the same through `value_roundtrip_budget`: `readBudget exCodec exDatum = 9 + 2 * 8 + 2 = 27`, and no
evaluation of `read` is needed to discharge a hypothesis -/
example : readBudget exCodec exDatum = 27 := by decide +kernel

example (rest : Bytes) : read toyEnv 27 exCodec (exBytes ++ rest) (Codec.zero toyEnv exCodec)
    = .ok (.struct [.map false [[97]] [.int 7], .ptr (some (.str [104, 105])), .ptr (some (.slice []))], rest) := by
  have hcf : CodecFor exCodec exSchema :=
    .record (.cons (.map .intL) (.cons (.unionOne1 (.pointer .string)) (.cons (.pointer (.array .intI)) .nil))) rfl
  have := value_roundtrip_budget toyEnv exCodec exSchema hcf 10 27 10 5 exVal exBytes exBytes rest exDatum
    (by decide +kernel) (by rfl) (by decide +kernel)
    (by simp [RTOk, exCodec, exVal, FieldsOk, Codec.zero, inRange, Codec.ptrDepth])
    (by decide +kernel)
  simpa [normCodec, exCodec, exVal, normFieldsWith, listSet, Codec.stripPtr, nilForm, omits] using this

/-- `normCodec` is a normal form (1): normalising twice is normalising once -/
theorem norm_idempotent (h : EnvLaws env) (n : Nat) (c : Codec) (g : GoVal) (hok : RTOk env n c g) :
    normCodec env n c (normCodec env n c g) = normCodec env n c g :=
  normCodec_idem env h n c g hok

/-- `normCodec` is a normal form (2): it is the identity on plain values (see `Plain`), so a plain
value is read back exactly as it was written -/
theorem value_roundtrip_exact (h : EnvLaws env) (c : Codec) (s : ASchema) (hcf : CodecFor c s) (n n' m m' : Nat)
    (g : GoVal) (bs bs' rest : Bytes) (v : Value)
    (hw : write env n c g = some bs) (ht : toAvro env (omits env) m c g = some v)
    (he : encode (canonPlan v) s v = some bs') (hok : RTOk env m' c g) (hp : Plain env m' c g)
    (hnf : read env n' c (bs ++ rest) (Codec.zero env c) ≠ .fuel) :
    read env n' c (bs ++ rest) (Codec.zero env c) = .ok (g, rest) := by
  have := value_roundtrip env c s hcf n n' m m' g bs bs' rest v hw ht he hok hnf
  rwa [normCodec_plain env h m' c g hp] at this

/-- `value_roundtrip_exact` with an explicit budget: a plain value is read back exactly as it was
written by every read budget `n' ≥ readBudget c v` -/
theorem value_roundtrip_exact_budget (h : EnvLaws env) (c : Codec) (s : ASchema) (hcf : CodecFor c s) (n n' m m' : Nat)
    (g : GoVal) (bs bs' rest : Bytes) (v : Value)
    (hw : write env n c g = some bs) (ht : toAvro env (omits env) m c g = some v)
    (he : encode (canonPlan v) s v = some bs') (hok : RTOk env m' c g) (hp : Plain env m' c g)
    (hn : readBudget c v ≤ n') :
    read env n' c (bs ++ rest) (Codec.zero env c) = .ok (g, rest) := by
  have := value_roundtrip_budget env c s hcf n n' m m' g bs bs' rest v hw ht he hok hn
  rwa [normCodec_plain env h m' c g hp] at this

/-- **C01 against the documented normalisations**: for a Go type `T` of the fragment of
`normSpec_agrees`, the codec `c` of `T` and a well-typed value `g`, the value `r` read back from what
was written for `g` equals `g` up to the documented normalisations and the recorded deviations
D27 / D30 / D32: `normSpec T r = normSpecD 7 T g`. -/
theorem value_roundtrip_spec (h : EnvLaws env) (T : GoType) (N M k : Nat) (c : Codec) (s : ASchema)
    (hcf : CodecFor c s) (n n' m m' : Nat) (g : GoVal) (bs bs' rest : Bytes) (v : Value)
    (hc : fieldCodec N T false = some c) (hty : Typed M T g) (hN : N ≤ m') (hk : N ≤ k)
    (hw : write env n c g = some bs) (ht : toAvro env (omits env) m c g = some v)
    (he : encode (canonPlan v) s v = some bs') (hok : RTOk env m' c g)
    (hnf : read env n' c (bs ++ rest) (Codec.zero env c) ≠ .fuel) :
    ∃ r, read env n' c (bs ++ rest) (Codec.zero env c) = .ok (r, rest) ∧
      normSpec k T false r = normSpecD 7 k T false g :=
  ⟨_, value_roundtrip env c s hcf n n' m m' g bs bs' rest v hw ht he hok hnf,
    normSpec_agrees env h N M m' k T false c g hc hty hN hk⟩

/-- `value_roundtrip_spec` with an explicit budget -/
theorem value_roundtrip_spec_budget (h : EnvLaws env) (T : GoType) (N M k : Nat) (c : Codec) (s : ASchema)
    (hcf : CodecFor c s) (n n' m m' : Nat) (g : GoVal) (bs bs' rest : Bytes) (v : Value)
    (hc : fieldCodec N T false = some c) (hty : Typed M T g) (hN : N ≤ m') (hk : N ≤ k)
    (hw : write env n c g = some bs) (ht : toAvro env (omits env) m c g = some v)
    (he : encode (canonPlan v) s v = some bs') (hok : RTOk env m' c g)
    (hn : readBudget c v ≤ n') :
    ∃ r, read env n' c (bs ++ rest) (Codec.zero env c) = .ok (r, rest) ∧
      normSpec k T false r = normSpecD 7 k T false g :=
  ⟨_, value_roundtrip_budget env c s hcf n n' m m' g bs bs' rest v hw ht he hok hn,
    normSpec_agrees env h N M m' k T false c g hc hty hN hk⟩

/-! non-vacuity of the three: the example value is `RTOk`; with `Q` pointing to an empty slice it is
also `Plain`; the example codec is the codec of `struct{M map[string]int64; P *string; Q *[]int32}` -/

def exType : GoType :=
  .struct "Ex" "main" [.mk "M" true "" "" (.map .string (.int 64)), .mk "P" true "" "" (.ptr .string),
    .mk "Q" true "" "" (.ptr (.slice (.int 32)))]
def exValPlain : GoVal := .struct [.map false [[97]] [.int 7], .ptr (some (.str [104, 105])), .ptr (some (.slice []))]

example : builtCodec exType = .ok exCodec := by rfl
example : fieldCodec 8 exType false = some exCodec := by rfl

example : normCodec toyEnv 5 exCodec (normCodec toyEnv 5 exCodec exVal) = normCodec toyEnv 5 exCodec exVal :=
  norm_idempotent toyEnv toyEnv_laws 5 exCodec exVal
    (by simp [RTOk, exCodec, exVal, FieldsOk, Codec.zero, inRange, Codec.ptrDepth])

example : Plain toyEnv 5 exCodec exValPlain := by
  simp [Plain, PlainFields, exCodec, exValPlain, Codec.stripPtr, omits]
  intro j h0 h1 h2
  match j with
  | 0 => exact absurd rfl h0
  | 1 => exact absurd rfl h1
  | 2 => exact absurd rfl h2
  | j + 3 => rfl

example : Typed 5 exType exVal := by
  simp [Typed, TypedFields, exType, exVal, GoField.type, isU8n]
  rfl

example : ∃ r, read toyEnv 10 exCodec (exBytes ++ [255]) (Codec.zero toyEnv exCodec) = .ok (r, [255]) ∧
    normSpec 8 exType false r = normSpecD 7 8 exType false exVal := by
  have hcf : CodecFor exCodec exSchema :=
    .record (.cons (.map .intL) (.cons (.unionOne1 (.pointer .string)) (.cons (.pointer (.array .intI)) .nil))) rfl
  exact value_roundtrip_spec toyEnv toyEnv_laws exType 8 5 8 exCodec exSchema hcf 10 10 10 8 exVal exBytes exBytes
    [255] exDatum (by rfl) (by simp [Typed, TypedFields, exType, exVal, GoField.type, isU8n]; rfl) (by omega) (by omega)
    (by decide +kernel) (by rfl) (by decide +kernel)
    (by simp [RTOk, exCodec, exVal, FieldsOk, Codec.zero, inRange, Codec.ptrDepth])
    (ne_fuel_of (by decide +kernel))

/-! ### Whole files, from Go values to Go values -/

/-- a call history of the `Encoder` API at the level of Go values -/
inductive GoOp where
  | encode (g : GoVal)
  | flush

/-- the values passed to `Encode`, in call order -/
def GoOp.values : List GoOp → List GoVal
  | [] => []
  | .encode g :: ops => g :: GoOp.values ops
  | .flush :: ops => GoOp.values ops

/-- the same history at the level of bytes: `Encode(g)` appends what `Codec.Write` writes for `g` -/
def writtenOps (n : Nat) (c : Codec) : List GoOp → List EncOp
  | [] => []
  | .encode g :: ops => .encode ((write env n c g).getD []) :: writtenOps n c ops
  | .flush :: ops => .flush :: writtenOps n c ops

theorem encodings_writtenOps (n : Nat) (c : Codec) : ∀ gops : List GoOp,
    encodings (writtenOps env n c gops) = (GoOp.values gops).map (fun g => (write env n c g).getD [])
  | [] => rfl
  | .encode g :: ops => by simp [writtenOps, encodings, GoOp.values, encodings_writtenOps n c ops]
  | .flush :: ops => by simp [writtenOps, encodings, GoOp.values, encodings_writtenOps n c ops]

/-- what the record decoder with budget `N` makes of the bytes `r` (on their own) -/
def decOf (N : Nat) (c : Codec) (r : Bytes) : GoVal :=
  match read env N c r (Codec.zero env c) with
  | .ok (g, _) => g
  | _ => Codec.zero env c

/-- **C01, whole files, values.** `c` is a codec the library builds for schema `s`; `gops` is ANY history
of `Encode(g)` / `Flush` calls on Go values, closed by a final `Flush`; the file is what the encoder
model writes for it (any block size, any compressor the reader's decompressor undoes, sync marker
equal to the header's). Every written value `g` is well-typed for `c` (`write` succeeds), denotes a
datum `v` (`toAvro`) that the specification can encode under `s` (the value is within the schema
type's range) and satisfies the side conditions `RTOk` of `value_roundtrip`. The reader decodes
records with `Codec.Read` into a zeroed destination with ONE fixed step budget `N`, at least
`readBudget c v` for every written datum. Then `readFile` succeeds and delivers, in call order,
exactly `normCodec … g` for every written `g` (see `value_roundtrip` for what `normCodec` is).
No hypothesis mentions the file's bytes, `.fuel` or the decodability of anything; `hsmall`, `hn`,
`hn63` are the representability limits of `file_roundtrip` (block payload length, number of records). -/
theorem file_value_roundtrip {ε : Type} (cfg : EncCfg) (c : Codec) (s : ASchema) (hcf : CodecFor c s)
    (n m m' N : Nat) (gops : List GoOp)
    (hval : ∀ g ∈ GoOp.values gops, ∃ bs v bs', write env n c g = some bs ∧
      toAvro env (omits env) m c g = some v ∧ encode (canonPlan v) s v = some bs' ∧ RTOk env m' c g ∧
      readBudget c v ≤ N)
    {X : File.Ext GoVal} {fuel : Nat} {H : File.Header} {sel : File.CodecSel}
    (hh : File.ValidHeader X fuel cfg.header H sel (C03.recDecoder env N c)) (hs : H.sync = cfg.sync)
    (hcomp : ∀ x, File.decompress X sel (cfg.compress x) = .ok x)
    (hsmall : ∀ blk ∈ (specPart cfg.blockSize (writtenOps env n c gops ++ [.flush]) []).1,
      (cfg.compress blk.flatten).length ≤ File.maxLen)
    (hn : (GoOp.values gops).length < fuel) (hn63 : (GoOp.values gops).length < 2 ^ 63)
    (cb : Nat → Option ε) (hcb : ∀ i, cb i = none) :
    ∃ s' w', encRun cfg {} (writtenOps env n c gops ++ [.flush]) = (s', w', none) ∧ s'.count = 0 ∧ s'.wb = [] ∧
      File.readFile X fuel cb w'.accepted = ⟨(GoOp.values gops).map (normCodec env m' c), .ok⟩ := by
  have hlen : (encodings (writtenOps env n c gops)).length = (GoOp.values gops).length := by
    rw [encodings_writtenOps]; simp
  -- every written record is decoded exactly, whatever follows it
  have hrec : ∀ g ∈ GoOp.values gops, ∀ rest,
      read env N c ((write env n c g).getD [] ++ rest) (Codec.zero env c) = .ok (normCodec env m' c g, rest) := by
    intro g hg rest
    obtain ⟨bs, v, bs', hw, ht, he, hok, hb⟩ := hval g hg
    rw [hw]
    exact value_roundtrip_budget env c s hcf n N m m' g bs bs' rest v hw ht he hok hb
  have hdecOf : ∀ g ∈ GoOp.values gops, decOf env N c ((write env n c g).getD []) = normCodec env m' c g := by
    intro g hg
    have := hrec g hg []
    rw [List.append_nil] at this
    simp only [decOf, this]
  obtain ⟨s', w', hrun, hc0, hwb, hread⟩ :=
    file_roundtrip (ε := ε) cfg (writtenOps env n c gops) hh hs hcomp hsmall (decOf env N c)
      (by
        intro r hr rest
        rw [encodings_writtenOps] at hr
        obtain ⟨g, hg, rfl⟩ := List.mem_map.mp hr
        show read env N c _ _ = _
        rw [hrec g hg rest, hdecOf g hg])
      (by rw [hlen]; exact hn) (by rw [hlen]; exact hn63) cb hcb
  refine ⟨s', w', hrun, hc0, hwb, ?_⟩
  rw [hread, encodings_writtenOps, List.map_map]
  congr 1
  apply List.map_congr_left
  intro g hg
  exact hdecOf g hg

/-- `file_value_roundtrip` with the reader's budget bounded from the written Go values alone
(`goBudget`): every hypothesis is about the Go values, the codec, the configuration or the header. -/
theorem file_value_roundtrip_go {ε : Type} (cfg : EncCfg) (c : Codec) (s : ASchema) (hcf : CodecFor c s)
    (n m m' N : Nat) (gops : List GoOp)
    (hval : ∀ g ∈ GoOp.values gops, ∃ bs v bs', write env n c g = some bs ∧
      toAvro env (omits env) m c g = some v ∧ encode (canonPlan v) s v = some bs' ∧ RTOk env m' c g)
    (hN : ∀ g ∈ GoOp.values gops, goBudget c g ≤ N)
    {X : File.Ext GoVal} {fuel : Nat} {H : File.Header} {sel : File.CodecSel}
    (hh : File.ValidHeader X fuel cfg.header H sel (C03.recDecoder env N c)) (hs : H.sync = cfg.sync)
    (hcomp : ∀ x, File.decompress X sel (cfg.compress x) = .ok x)
    (hsmall : ∀ blk ∈ (specPart cfg.blockSize (writtenOps env n c gops ++ [.flush]) []).1,
      (cfg.compress blk.flatten).length ≤ File.maxLen)
    (hn : (GoOp.values gops).length < fuel) (hn63 : (GoOp.values gops).length < 2 ^ 63)
    (cb : Nat → Option ε) (hcb : ∀ i, cb i = none) :
    ∃ s' w', encRun cfg {} (writtenOps env n c gops ++ [.flush]) = (s', w', none) ∧ s'.count = 0 ∧ s'.wb = [] ∧
      File.readFile X fuel cb w'.accepted = ⟨(GoOp.values gops).map (normCodec env m' c), .ok⟩ :=
  file_value_roundtrip env cfg c s hcf n m m' N gops
    (fun g hg => by
      obtain ⟨bs, v, bs', hw, ht, he, hok⟩ := hval g hg
      exact ⟨bs, v, bs', hw, ht, he, hok, Nat.le_trans (readBudget_le_goBudget env _ ht) (hN g hg)⟩)
    hh hs hcomp hsmall hn hn63 cb hcb

/-! Non-vacuity of `file_value_roundtrip`: three struct values (one with a nil `*[]int32`, which comes
back as a pointer to the empty slice) written with a `Flush` in between, block size 12, read back with
the single record budget `27 = readBudget exCodec exDatum`. -/

def exGops : List GoOp := [.encode exVal, .flush, .encode exValPlain, .encode exVal]
def exHdrV : Bytes := File.mkHeader [[(File.kSchema, [0x22]), (File.kCodec, File.vNull)]] C07.exSync
def exCfgV : EncCfg := { blockSize := 12, compress := id, sync := C07.exSync, header := exHdrV }
def exXV : File.Ext GoVal :=
  { inflate := fun c => some c, unsnappy := fun c => some c, crc := fun _ => 0,
    build := fun _ => some (C03.recDecoder toyEnv 27 exCodec) }

example : ∃ s' w', encRun exCfgV {} (writtenOps toyEnv 10 exCodec exGops ++ [.flush]) = (s', w', none) ∧ s'.count = 0 ∧ s'.wb = [] ∧
    File.readFile exXV 9 (fun _ => (none : Option Unit)) w'.accepted =
      ⟨[exVal, exValPlain, exVal].map (normCodec toyEnv 5 exCodec), .ok⟩ := by
  have hcf : CodecFor exCodec exSchema :=
    .record (.cons (.map .intL) (.cons (.unionOne1 (.pointer .string)) (.cons (.pointer (.array .intI)) .nil))) rfl
  have hh : File.ValidHeader exXV 9 exCfgV.header
      { «meta» := File.metaOf [[(File.kSchema, [0x22]), (File.kCodec, File.vNull)]], sync := C07.exSync } .null
      (C03.recDecoder toyEnv 27 exCodec) := by
    refine C07.valid_mkHeader exXV _ C07.exSync 9 ?_ (by decide) (by decide) .null _ (by decide) ⟨[0x22], by decide, rfl⟩
    intro es hes
    simp only [List.mem_singleton] at hes
    subst hes
    refine ⟨by simp, by decide, ?_⟩
    intro kv hkv
    simp only [List.mem_cons, List.not_mem_nil, or_false] at hkv
    rcases hkv with rfl | rfl <;> exact ⟨by decide, by decide⟩
  exact file_value_roundtrip (ε := Unit) toyEnv exCfgV exCodec exSchema hcf 10 10 5 27 exGops
    (by
      intro g hg
      simp only [exGops, GoOp.values, List.mem_cons, List.not_mem_nil, or_false] at hg
      rcases hg with rfl | rfl | rfl
      · exact ⟨exBytes, exDatum, exBytes, by decide +kernel, by rfl, by decide +kernel,
          by simp [RTOk, exCodec, exVal, FieldsOk, Codec.zero, inRange, Codec.ptrDepth], by decide +kernel⟩
      · exact ⟨exBytes, exDatum, exBytes, by decide +kernel, by rfl, by decide +kernel,
          by simp [RTOk, exCodec, exValPlain, FieldsOk, Codec.zero, inRange], by decide +kernel⟩
      · exact ⟨exBytes, exDatum, exBytes, by decide +kernel, by rfl, by decide +kernel,
          by simp [RTOk, exCodec, exVal, FieldsOk, Codec.zero, inRange, Codec.ptrDepth], by decide +kernel⟩)
    hh rfl (fun x => rfl) (by decide +kernel) (by decide) (by decide) (fun _ => none) (fun _ => rfl)

/-! Non-vacuity of `file_value_roundtrip_go` (and of `goBudget`): the same history, the reader's budget
`211` computed from the Go values alone. -/

example : goBudget exCodec exVal = 171 ∧ goBudget exCodec exValPlain = 211 := by decide +kernel

def exXG : File.Ext GoVal :=
  { inflate := fun c => some c, unsnappy := fun c => some c, crc := fun _ => 0,
    build := fun _ => some (C03.recDecoder toyEnv 211 exCodec) }

example : ∃ s' w', encRun exCfgV {} (writtenOps toyEnv 10 exCodec exGops ++ [.flush]) = (s', w', none) ∧ s'.count = 0 ∧ s'.wb = [] ∧
    File.readFile exXG 9 (fun _ => (none : Option Unit)) w'.accepted =
      ⟨[exVal, exValPlain, exVal].map (normCodec toyEnv 5 exCodec), .ok⟩ := by
  have hcf : CodecFor exCodec exSchema :=
    .record (.cons (.map .intL) (.cons (.unionOne1 (.pointer .string)) (.cons (.pointer (.array .intI)) .nil))) rfl
  have hh : File.ValidHeader exXG 9 exCfgV.header
      { «meta» := File.metaOf [[(File.kSchema, [0x22]), (File.kCodec, File.vNull)]], sync := C07.exSync } .null
      (C03.recDecoder toyEnv 211 exCodec) := by
    refine C07.valid_mkHeader exXG _ C07.exSync 9 ?_ (by decide) (by decide) .null _ (by decide) ⟨[0x22], by decide, rfl⟩
    intro es hes
    simp only [List.mem_singleton] at hes
    subst hes
    refine ⟨by simp, by decide, ?_⟩
    intro kv hkv
    simp only [List.mem_cons, List.not_mem_nil, or_false] at hkv
    rcases hkv with rfl | rfl <;> exact ⟨by decide, by decide⟩
  exact file_value_roundtrip_go (ε := Unit) toyEnv exCfgV exCodec exSchema hcf 10 10 5 211 exGops
    (by
      intro g hg
      simp only [exGops, GoOp.values, List.mem_cons, List.not_mem_nil, or_false] at hg
      rcases hg with rfl | rfl | rfl
      · exact ⟨exBytes, exDatum, exBytes, by decide +kernel, by rfl, by decide +kernel,
          by simp [RTOk, exCodec, exVal, FieldsOk, Codec.zero, inRange, Codec.ptrDepth]⟩
      · exact ⟨exBytes, exDatum, exBytes, by decide +kernel, by rfl, by decide +kernel,
          by simp [RTOk, exCodec, exValPlain, FieldsOk, Codec.zero, inRange]⟩
      · exact ⟨exBytes, exDatum, exBytes, by decide +kernel, by rfl, by decide +kernel,
          by simp [RTOk, exCodec, exVal, FieldsOk, Codec.zero, inRange, Codec.ptrDepth]⟩)
    (by
      intro g hg
      simp only [exGops, GoOp.values, List.mem_cons, List.not_mem_nil, or_false] at hg
      rcases hg with rfl | rfl | rfl <;> decide +kernel)
    hh rfl (fun x => rfl) (by decide +kernel) (by decide) (by decide) (fun _ => none) (fun _ => rfl)

/-- non-vacuity of `value_roundtrip_exact_budget` / `value_roundtrip_spec_budget` -/
example (rest : Bytes) : read toyEnv 27 exCodec (exBytes ++ rest) (Codec.zero toyEnv exCodec) = .ok (exValPlain, rest) := by
  have hcf : CodecFor exCodec exSchema :=
    .record (.cons (.map .intL) (.cons (.unionOne1 (.pointer .string)) (.cons (.pointer (.array .intI)) .nil))) rfl
  exact value_roundtrip_exact_budget toyEnv toyEnv_laws exCodec exSchema hcf 10 27 10 5 exValPlain exBytes exBytes rest exDatum
    (by decide +kernel) (by rfl) (by decide +kernel)
    (by simp [RTOk, exCodec, exValPlain, FieldsOk, Codec.zero, inRange])
    (by
      simp [Plain, PlainFields, exCodec, exValPlain, omits]
      intro j h0 h1 h2
      match j with
      | 0 => exact absurd rfl h0
      | 1 => exact absurd rfl h1
      | 2 => exact absurd rfl h2
      | j + 3 => rfl)
    (by decide +kernel)

example (rest : Bytes) : ∃ r, read toyEnv 27 exCodec (exBytes ++ rest) (Codec.zero toyEnv exCodec) = .ok (r, rest) ∧
    normSpec 8 exType false r = normSpecD 7 8 exType false exVal := by
  have hcf : CodecFor exCodec exSchema :=
    .record (.cons (.map .intL) (.cons (.unionOne1 (.pointer .string)) (.cons (.pointer (.array .intI)) .nil))) rfl
  exact value_roundtrip_spec_budget toyEnv toyEnv_laws exType 8 5 8 exCodec exSchema hcf 10 27 10 8 exVal exBytes exBytes
    rest exDatum (by rfl) (by simp [Typed, TypedFields, exType, exVal, GoField.type, isU8n]; rfl) (by omega) (by omega)
    (by decide +kernel) (by rfl) (by decide +kernel)
    (by simp [RTOk, exCodec, exVal, FieldsOk, Codec.zero, inRange, Codec.ptrDepth])
    (by decide +kernel)

end Avro.C01
