import AvroModel.Lemmas.WriteOk
import AvroModel.Lemmas.BuildOk
/-!
# C13 — Codecs built from caller-supplied schemas write valid data and invert

`write` produces exactly the specification's encoding (canonical plan) of the datum the Go value
denotes under the caller's schema — whichever position null occupies in a union, whatever the
declared numeric width or logical type — and `read` of those bytes delivers that datum back.
-/
namespace Avro.C13
open Avro

variable (env : Env)

/-- **Valid output.** For every codec the library can build for schema `s`, every Go value and every
budget: if the specification defines an encoding of the value's datum under `s` (i.e. the value is
within the schema type's range), the bytes written are exactly that encoding. -/
theorem write_valid (c : Codec) (s : ASchema) (hcf : CodecFor c s) (n m : Nat) (g : GoVal) (bs bs' : Bytes) (v : Value)
    (hw : write env n c g = some bs) (ht : toAvro env (omits env) m c g = some v)
    (he : encode (canonPlan v) s v = some bs') : bs' = bs :=
  (writeOkAt env n).write m c s g bs v bs' hcf hw ht he

/-- the same, starting from successful construction -/
theorem write_valid_built (reg : Reg) (hreg : ∀ id, reg.custom id = none) (nb fa n m : Nat)
    (sch : Schema) (T : Option GoType) (oe : Bool) (c : Codec) (s : ASchema) (g : GoVal) (bs bs' : Bytes) (v : Value)
    (hb : buildCodec reg nb sch T oe = .ok c) (hc : classify fa sch = some s)
    (hw : write env n c g = some bs) (ht : toAvro env (omits env) m c g = some v)
    (he : encode (canonPlan v) s v = some bs') : bs' = bs :=
  write_valid env c s ((buildOkAt reg hreg nb).build sch T oe c hb fa s hc) n m g bs bs' v hw ht he

/-- **Inverts.** Decoding what was written yields the value the written datum denotes, with nothing
left over (composition of write correctness and read correctness). -/
theorem write_then_read (c : Codec) (s : ASchema) (hcf : CodecFor c s) (n n' m m' : Nat) (g dst : GoVal) (bs bs' rest : Bytes) (v : Value)
    (hw : write env n c g = some bs) (ht : toAvro env (omits env) m c g = some v)
    (he : encode (canonPlan v) s v = some bs') :
    ReadSpec (read env n' c (bs ++ rest) dst) (ofAvro env m' c v dst) rest := by
  have := write_valid env c s hcf n m g bs bs' v hw ht he
  subst this
  exact (readOkAt env n').read m' c s (canonPlan v) v bs' rest dst hcf he

/-- null second: a nil pointer under `["long","null"]` is written with selector 1 (`02`), not 0 -/
theorem null_second_selector (n : Nat) (o : Bool) :
    write env (n + 1) (.unionOne (.pointer (.int 64 o)) 0) (.ptr none) = some [2] := by
  simp [write, omits, writeVarint, zigzag, putUvarint]

/-- null first: the value branch is selector 1, written as `02` followed by the value -/
theorem null_first_value (n : Nat) (o : Bool) :
    write env (n + 2) (.unionOne (.int 64 o) 1) (.int 3) = some ([2] ++ (if o then [6] else [6])) := by
  cases o <;> simp [write, omits, writeVarint, zigzag, putUvarint]

/-- general (non-nullable) unions have no writer: `unionCodec.Write` panics by design; they are
outside this property's quantifier -/
theorem general_union_write_panics (n : Nat) (cs : List Codec) (g : GoVal) : write env n (.union cs) g = none := by
  cases n <;> simp [write]

/-- logical types: a time written under timestamp-millis is the floor of its instant in
milliseconds; under timestamp-micros in microseconds; under plain long in nanoseconds -/
theorem timeLong_units (n : Nat) (t : TimeVal) :
    write env (n + 1) (.timeLong 1000000) (.time t) = some (writeVarint (Int.fdiv (t.unix * 1000000000 + t.nsec) 1000000)) ∧
    write env (n + 1) (.timeLong 1000) (.time t) = some (writeVarint (Int.fdiv (t.unix * 1000000000 + t.nsec) 1000)) ∧
    write env (n + 1) (.timeLong 1) (.time t) = some (writeVarint (wrap64 (t.unix * 1000000000 + t.nsec))) := by
  simp [write]

end Avro.C13
