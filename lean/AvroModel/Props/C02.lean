import AvroModel.Container
import AvroModel.Lemmas.WriteOk
import AvroModel.Props.C09
import AvroModel.Lemmas.DecodeOk
import AvroModel.Lemmas.SpecHeader
/-!
# C02 — Files written are valid Avro that an independent reader decodes identically

Record level: each record's bytes are the specification's encoding of the datum the value denotes
(`Props/C13.write_valid`, reused here for schemas generated from the Go type).
Null clause: which values are written as the null branch.
Container level: `C09.refines` (header followed by exactly the frames of the blocks, each with exact
count and byte length and the sync marker).
-/
namespace Avro.C02
open Avro

variable (env : Env)

/-- each record the encoder buffers is a valid Avro encoding of its value under the schema -/
theorem record_valid (c : Codec) (s : ASchema) (hcf : CodecFor c s) (n m : Nat) (g : GoVal) (bs bs' : Bytes) (v : Value)
    (hw : write env n c g = some bs) (ht : toAvro env (omits env) m c g = some v)
    (he : encode (canonPlan v) s v = some bs') : bs' = bs :=
  (writeOkAt env n).write m c s g bs v bs' hcf hw ht he

/-- **An independent reader recovers the same data, with no bytes left over.** The reference decoder
(written from the specification, sharing nothing with the codec model) applied to what `write`
produced — followed by anything — returns exactly the datum the value denotes and the exact
remainder. (Composition of write correctness with `decode_encode`.) -/
theorem independent_reader_recovers (c : Codec) (s : ASchema) (hcf : CodecFor c s) (n n' m : Nat) (g : GoVal)
    (bs bs' rest : Bytes) (v : Value)
    (hw : write env n c g = some bs) (ht : toAvro env (omits env) m c g = some v)
    (he : encode (canonPlan v) s v = some bs') :
    decode n' s (bs ++ rest) = .ok (v, rest) ∨ decode n' s (bs ++ rest) = .fuel := by
  have := record_valid env c s hcf n m g bs bs' v hw ht he
  subst this
  exact decode_encode n' s (canonPlan v) v bs' rest he

/-- the specification's encodings are self-delimiting: every legal encoding of a datum, under any
plan, is decoded back to that datum by the reference decoder -/
theorem reference_decoder_inverts (n : Nat) (s : ASchema) (p : Plan) (v : Value) (bs rest : Bytes)
    (he : encode p s v = some bs) :
    decode n s (bs ++ rest) = .ok (v, rest) ∨ decode n s (bs ++ rest) = .fuel :=
  decode_encode n s p v bs rest he

/-- the branch of a nullable union is null exactly when the codec's `Omit` holds -/
theorem null_branch_iff (n : Nat) (c : Codec) (nn : Nat) (g : GoVal) (bs : Bytes)
    (hw : write env (n + 1) (.unionOne c nn) g = some bs) :
    (omits env c g = true → bs = writeVarint (1 - (nn : Int))) ∧
    (omits env c g = false → ∃ b, write env n c g = some b ∧ bs = writeVarint nn ++ b) := by
  simp only [write] at hw
  constructor
  · intro ho; simp [ho] at hw; exact hw.symm
  · intro ho
    simp [ho] at hw
    cases hb : write env n c g with
    | none => simp [hb] at hw
    | some b => simp [hb] at hw; exact ⟨b, rfl, hw.symm⟩

/-- `Omit` in terms of values: nil pointer (also a pointer to a nil pointer), invalid wrapper,
zero / empty omitempty field — and never for a non-omitempty scalar, so null stays distinguishable from zero -/
theorem omits_cases :
    (∀ c, omits env (.pointer c) (.ptr none) = true) ∧
    (∀ k v, omits env (.nullw k) (.nullw false v) = true) ∧
    (∀ k v, omits env (.nullw k) (.nullw true v) = false) ∧
    (∀ w, omits env (.int w true) (.int 0) = true) ∧
    (∀ w i, i ≠ 0 → omits env (.int w true) (.int i) = false) ∧
    (∀ w i, omits env (.int w false) (.int i) = false) ∧
    (omits env (.string true) (.str []) = true) ∧
    (∀ b bs, omits env (.string true) (.str (b :: bs)) = false) ∧
    (∀ item, omits env (.array item true) (.slice []) = true) ∧
    (∀ val nl, omits env (.map val true) (.map nl [] []) = true) := by
  refine ⟨?_, ?_, ?_, ?_, ?_, ?_, ?_, ?_, ?_, ?_⟩ <;> intros <;> simp [omits] <;> try assumption

/-- **Known finding D27 (machine-checked witness).** The full statement "an invalid null.* wrapper is
written as the null branch" is false behind a pointer: the code's `Omit` says non-null for a
non-nil pointer to an invalid wrapper, while the specification's reading says null. -/
def null_clause_full : Prop := ∀ (c : Codec) (g : GoVal), specNull env c g = omits env c g

theorem null_clause_full_false : ¬ null_clause_full env := by
  intro h
  have := h (.pointer (.nullw .int)) (.ptr (some (.nullw false (.int 0))))
  simp [specNull, omits] at this

/-- outside pointers to wrappers the two notions agree -/
theorem null_clause_partial (c : Codec) (g : GoVal) (hc : ∀ c', c ≠ .pointer c') : specNull env c g = omits env c g := by
  cases c <;> first | (exact absurd rfl (hc _)) | (cases g <;> simp [specNull])

/-- container level (from C09): header followed by the exact frames of the blocks -/
theorem container_frames (cfg : EncCfg) (ops : List EncOp) :
    ∃ s' w', encRun cfg {} ops = (s', w', none) ∧
      w'.accepted = cfg.header ++ (((specPart cfg.blockSize ops []).1).map (frame cfg)).flatten :=
  let ⟨s', w', h1, h2, _, _⟩ := C09.refines cfg ops; ⟨s', w', h1, h2⟩

/-! ### The container, as seen by the specification's reader

`Avro.Spec.readBlocks` (Container.lean) is the block reader written from the Avro specification; it shares
nothing with the library's reader model (`File.lean`). It accepts exactly: count, byte size, payload of that
size, 16-byte marker equal to the header's. -/

theorem writeVarint_ne_nil (v : Int) : writeVarint v ≠ [] := putUvarint_ne_nil _

/-- the frames the encoder writes for any list of blocks are read by the specification's block reader as
those blocks: the declared record count is the number of records, the declared byte size is exact (the
payload is cut out precisely), every marker matches, nothing is left over -/
theorem spec_reader_reads_frames (cfg : EncCfg) (hs : cfg.sync.length = 16) :
    ∀ (part : List (List Bytes)),
      (∀ blk ∈ part, inRange 64 (blk.length : Int) ∧ inRange 64 ((cfg.compress blk.flatten).length : Int)) →
      Spec.readBlocks cfg.sync (part.length + 1) ((part.map (frame cfg)).flatten) =
        some (part.map fun blk => { count := (blk.length : Int), payload := cfg.compress blk.flatten })
  | [], _ => by simp [Spec.readBlocks]
  | blk :: rest, h => by
    have hb := h blk (by simp)
    have ih := spec_reader_reads_frames cfg hs rest (fun b hb => h b (by simp [hb]))
    have hne : (List.map (frame cfg) (blk :: rest)).flatten ≠ [] := by
      simp only [List.map_cons, List.flatten_cons, frame, blockChunks]
      intro hnil
      have : writeVarint (blk.length : Int) = [] := by
        have := congrArg List.length hnil
        simp only [List.flatten_cons, List.length_append, List.length_nil] at this
        exact List.eq_nil_of_length_eq_zero (by omega)
      exact writeVarint_ne_nil _ this
    have hshape : (List.map (frame cfg) (blk :: rest)).flatten =
        writeVarint (blk.length : Int) ++ (writeVarint ((cfg.compress blk.flatten).length : Int) ++
          (cfg.compress blk.flatten ++ (cfg.sync ++ (List.map (frame cfg) rest).flatten))) := by
      simp [frame, blockChunks, List.append_assoc]
    rw [List.length_cons, Spec.readBlocks]
    rw [if_neg hne, hshape, readVarint_writeVarint _ hb.1]
    simp only []
    rw [readVarint_writeVarint _ hb.2]
    simp only []
    have hnn : ¬ (((cfg.compress blk.flatten).length : Int) < 0 ∨ ((blk.length : Nat) : Int) < 0) := by omega
    rw [if_neg hnn, Int.toNat_natCast, takeN_append']
    simp only []
    rw [← hs, takeN_append']
    simp only [ne_eq, not_true_eq_false, if_false]
    rw [ih]
    simp

/-- **C02, container clause.** For every Encode/Flush history the bytes after the header are read by the
specification's block reader as the reference partition of the records: exact counts, exact sizes,
matching markers, no bytes left over. -/
theorem container_valid (cfg : EncCfg) (hs : cfg.sync.length = 16) (ops : List EncOp)
    (hsz : ∀ blk ∈ (specPart cfg.blockSize ops []).1, inRange 64 (blk.length : Int) ∧ inRange 64 ((cfg.compress blk.flatten).length : Int)) :
    ∃ s' w' body, encRun cfg {} ops = (s', w', none) ∧ w'.accepted = cfg.header ++ body ∧
      Spec.readBlocks cfg.sync ((specPart cfg.blockSize ops []).1.length + 1) body =
        some ((specPart cfg.blockSize ops []).1.map fun blk => { count := (blk.length : Int), payload := cfg.compress blk.flatten }) := by
  obtain ⟨s', w', h1, h2⟩ := container_frames cfg ops
  exact ⟨s', w', _, h1, h2, spec_reader_reads_frames cfg hs _ hsz⟩

/-- non-vacuity: a concrete history (two records, a flush, one record, block size 2), identity compression -/
def exCfg2 : EncCfg := { blockSize := 2, compress := id, sync := List.replicate 16 0xAA, header := [0x4F] }
def exOps2 : List EncOp := [.encode [1], .encode [2], .flush, .encode [3, 4, 5], .flush]

example : (Spec.readBlocks exCfg2.sync 4 ((encRun exCfg2 {} exOps2).2.1.accepted.drop 1)).map
      (fun bl => bl.map fun b => (b.count, b.payload)) =
    some [(2, [1, 2]), (1, [3, 4, 5])] := by decide +kernel

example : ∀ blk ∈ (specPart exCfg2.blockSize exOps2 []).1,
    inRange 64 (blk.length : Int) ∧ inRange 64 ((exCfg2.compress blk.flatten).length : Int) := by decide +kernel

/-! ### The header, as seen by the specification's reader

`File.mkHeader` (Lemmas/File.lean) is the writer model of the header: magic, the metadata map in blocks,
the terminating zero count, the sync marker; the library writes a single block with the entries
`avro.schema` and `avro.codec` (filewriter.go `WriteHeader`). `Avro.Spec.readHeader` is the
specification-side reader. -/

/-- **The specification's reader reads the writer's header**: a header with a single metadata block
`es` of at least one entry, keys and values of representable length, and a 16-byte sync marker is read
back as exactly those entries (in order) and that marker, and exactly what follows the header is left. -/
theorem spec_reader_reads_header (es : List (Bytes × Bytes)) (sync rest : Bytes) (hne : es ≠ [])
    (hlen : es.length ≤ File.maxLen) (hsm : ∀ kv ∈ es, File.SmallEntry kv) (hs : sync.length = 16) :
    Spec.readHeader (File.mkHeader [es] sync ++ rest) = some ({ metadata := es, sync := sync }, rest) :=
  SpecHeader.readHeader_mkHeader es sync rest hne hlen hsm hs

/-- **C02, whole file.** With the header the library writes — `mkHeader` of the one metadata block
`avro.schema = js`, `avro.codec = name` and the writer's sync marker — the specification-side reader
reads the *whole* output of any `Encode`/`Flush` history as: that metadata (so that looking up
`avro.schema` / `avro.codec` yields `js` / `name`), that sync marker, and then the blocks of the
reference partition with exact record counts and exact payload sizes, every block followed by the
header's marker, and no byte left over (`Spec.readBlocks` returns `some` only when it consumed
everything). -/
theorem file_valid (cfg : EncCfg) (js name : Bytes)
    (hhdr : cfg.header = File.mkHeader [[(File.kSchema, js), (File.kCodec, name)]] cfg.sync)
    (hs : cfg.sync.length = 16) (hjs : js.length ≤ File.maxLen) (hname : name.length ≤ File.maxLen)
    (ops : List EncOp)
    (hsz : ∀ blk ∈ (specPart cfg.blockSize ops []).1, inRange 64 (blk.length : Int) ∧ inRange 64 ((cfg.compress blk.flatten).length : Int)) :
    ∃ s' w' hdr body, encRun cfg {} ops = (s', w', none) ∧
      Spec.readHeader w'.accepted = some (hdr, body) ∧
      hdr.metadata = [(File.kSchema, js), (File.kCodec, name)] ∧ hdr.sync = cfg.sync ∧
      hdr.lookup File.kSchema = some js ∧ hdr.lookup File.kCodec = some name ∧
      Spec.readBlocks hdr.sync ((specPart cfg.blockSize ops []).1.length + 1) body =
        some ((specPart cfg.blockSize ops []).1.map fun blk => { count := (blk.length : Int), payload := cfg.compress blk.flatten }) := by
  obtain ⟨s', w', body, hrun, hacc, hblocks⟩ := container_valid cfg hs ops hsz
  refine ⟨s', w', { metadata := [(File.kSchema, js), (File.kCodec, name)], sync := cfg.sync }, body, hrun, ?_, rfl, rfl, ?_, ?_, hblocks⟩
  · rw [hacc, hhdr]
    apply spec_reader_reads_header _ _ _ (by simp) (by show 2 ≤ File.maxLen; decide) _ hs
    intro kv hkv
    simp only [List.mem_cons, List.not_mem_nil, or_false] at hkv
    rcases hkv with rfl | rfl
    · exact ⟨(by show File.kSchema.length ≤ File.maxLen; decide), hjs⟩
    · exact ⟨(by show File.kCodec.length ≤ File.maxLen; decide), hname⟩
  · have h1 : (File.kCodec == File.kSchema) = false := by decide
    simp [Spec.Header.lookup, h1]
  · simp [Spec.Header.lookup]

/-- non-vacuity: the history of `exOps2` behind a real header (schema `"`, codec null) -/
def exCfg3 : EncCfg :=
  { blockSize := 2, compress := id, sync := List.replicate 16 0xAA,
    header := File.mkHeader [[(File.kSchema, [0x22]), (File.kCodec, File.vNull)]] (List.replicate 16 0xAA) }

/-- the hypotheses of `file_valid` hold for it … -/
example : ∃ s' w' hdr body, encRun exCfg3 {} exOps2 = (s', w', none) ∧
      Spec.readHeader w'.accepted = some (hdr, body) ∧
      hdr.metadata = [(File.kSchema, [0x22]), (File.kCodec, File.vNull)] ∧ hdr.sync = exCfg3.sync ∧
      hdr.lookup File.kSchema = some [0x22] ∧ hdr.lookup File.kCodec = some File.vNull ∧
      Spec.readBlocks hdr.sync ((specPart exCfg3.blockSize exOps2 []).1.length + 1) body =
        some ((specPart exCfg3.blockSize exOps2 []).1.map fun blk => { count := (blk.length : Int), payload := exCfg3.compress blk.flatten }) :=
  file_valid exCfg3 [0x22] File.vNull rfl (by decide) (by decide) (by decide) exOps2 (by decide +kernel)

/-- … and its conclusion, evaluated: the specification's reader on the whole output of the encoder model -/
example : (Spec.readHeader (encRun exCfg3 {} exOps2).2.1.accepted).map (fun hb => (hb.1.metadata, hb.1.sync, hb.2.length)) =
      some ([(File.kSchema, [0x22]), (File.kCodec, File.vNull)], List.replicate 16 0xAA, 41) ∧
    ((Spec.readHeader (encRun exCfg3 {} exOps2).2.1.accepted).bind fun hb => Spec.readBlocks hb.1.sync 4 hb.2).map
      (fun bl => bl.map fun b => (b.count, b.payload)) = some [(2, [1, 2]), (1, [3, 4, 5])] := by decide +kernel

end Avro.C02
