import AvroModel.Lemmas.Encoder
import AvroModel.Props.C08
/-!
# C16 — Write failures surface as errors and leave a clean prefix

Model: `AvroModel/Encoder.lean`; the writer fails on its `k`-th call after accepting `acc`
bytes of that call. Theorems hold for every `k`, every `acc`, every call history, any compressor.
(That every `w.Write` error is checked and returned at once — the shape `writeAll` assumes — is
tied to the source by the regenerated `WriteSeq` facts and by the correspondence run.)
-/
namespace Avro.C16
open Avro

/-- `w` (possibly faulty) and `w0` (fault-free) have accepted the same bytes so far. -/
def Sim (w w0 : WState) : Prop := w.accepted = w0.accepted ∧ w0.Free

theorem prefix_append_take (a d : Bytes) (n : Nat) : (a ++ d.take n) <+: (a ++ d) := by
  refine ⟨d.drop n, ?_⟩
  rw [List.append_assoc, List.take_append_drop]

/-- One `Write`: either both writers accept everything, or the faulty one reports an error having
accepted a prefix of what the fault-free one accepted. -/
theorem write_sim {w w0 : WState} (h : Sim w w0) (d : Bytes) :
    (∃ w', w.write d = (w', true) ∧ Sim w' (w0.write d).1) ∨
    (∃ w', w.write d = (w', false) ∧ w'.accepted <+: (w0.write d).1.accepted) := by
  obtain ⟨hacc, hfree⟩ := h
  rw [write_free hfree]
  unfold WState.write
  by_cases hk : w.calls + 1 = w.failAt
  · right; simp only [hk, if_true]
    refine ⟨_, rfl, ?_⟩
    simp only [hacc]; exact prefix_append_take _ _ _
  · left; simp only [hk, if_false]
    exact ⟨_, rfl, by simp [hacc], hfree⟩

/-- The fault-free writer only ever appends. -/
theorem writeAll_free_mono {w0 : WState} (h : w0.Free) (ds : List Bytes) :
    w0.accepted <+: (w0.writeAll ds).1.accepted := by
  obtain ⟨w', hw, _, hacc, _⟩ := writeAll_free h ds
  rw [hw, hacc]; exact List.prefix_append _ _

theorem writeAll_sim {w w0 : WState} (h : Sim w w0) (ds : List Bytes) :
    (∃ w', w.writeAll ds = (w', true) ∧ Sim w' (w0.writeAll ds).1) ∨
    (∃ w', w.writeAll ds = (w', false) ∧ w'.accepted <+: (w0.writeAll ds).1.accepted) := by
  induction ds generalizing w w0 with
  | nil => left; exact ⟨w, rfl, h⟩
  | cons d ds ih =>
    have hfree := h.2
    have hw0 : w0.writeAll (d :: ds) = (w0.write d).1.writeAll ds := by
      simp only [WState.writeAll]; rw [write_free hfree]
    rw [hw0]
    rcases write_sim h d with ⟨w', hw, hsim⟩ | ⟨w', hw, hpre⟩
    · rcases ih hsim with ⟨w'', hw'', hsim''⟩ | ⟨w'', hw'', hpre''⟩
      · left; exact ⟨w'', by simp only [WState.writeAll, hw, hw''], hsim''⟩
      · right; exact ⟨w'', by simp only [WState.writeAll, hw, hw''], hpre''⟩
    · right
      refine ⟨w', by simp only [WState.writeAll, hw], ?_⟩
      exact List.IsPrefix.trans hpre (writeAll_free_mono (write_free_free hfree d) ds)

theorem flush_sim (cfg : EncCfg) (s : EncState) {w w0 : WState} (h : Sim w w0) :
    (∃ s' w', encFlush cfg s w = (s', w', true) ∧ (encFlush cfg s w0).1 = s' ∧ (encFlush cfg s w0).2.2 = true ∧
        Sim w' (encFlush cfg s w0).2.1) ∨
    (∃ s' w', encFlush cfg s w = (s', w', false) ∧ (encFlush cfg s w0).2.2 = true ∧
        w'.accepted <+: (encFlush cfg s w0).2.1.accepted) := by
  unfold encFlush
  by_cases hc : s.count > 0
  · simp only [hc, if_true]
    obtain ⟨w0', hw0, hfree0, _⟩ := writeAll_free h.2 (blockChunks cfg s.count s.wb)
    rcases writeAll_sim h (blockChunks cfg s.count s.wb) with ⟨w', hw, hsim⟩ | ⟨w', hw, hpre⟩
    · left; rw [hw, hw0]; rw [hw0] at hsim; exact ⟨_, w', by first | rfl | trivial, by first | rfl | trivial, by first | rfl | trivial, hsim⟩
    · right; rw [hw, hw0]; rw [hw0] at hpre; exact ⟨_, w', rfl, by first | rfl | trivial, hpre⟩
  · left; simp only [hc, if_false]; refine ⟨s, w, ?_, ?_, ?_, ?_⟩ <;> first | rfl | trivial | exact h

theorem step_sim (cfg : EncCfg) (s : EncState) (op : EncOp) {w w0 : WState} (h : Sim w w0) :
    (∃ s' w', encStep cfg s w op = (s', w', true) ∧ (encStep cfg s w0 op).1 = s' ∧ (encStep cfg s w0 op).2.2 = true ∧
        Sim w' (encStep cfg s w0 op).2.1) ∨
    (∃ s' w', encStep cfg s w op = (s', w', false) ∧ (encStep cfg s w0 op).2.2 = true ∧
        w'.accepted <+: (encStep cfg s w0 op).2.1.accepted) := by
  cases op with
  | flush => exact flush_sim cfg s h
  | encode r =>
    simp only [encStep, encEncode]
    split
    · exact flush_sim cfg _ h
    · left; exact ⟨_, w, rfl, rfl, rfl, h⟩

/-- A fault-free run only ever appends to what was accepted. -/
theorem runFrom_free_mono (cfg : EncCfg) (ops : List EncOp) : ∀ (i : Nat) (s : EncState) (w0 : WState), w0.Free →
    w0.accepted <+: (encRunFrom cfg ops i s w0).2.1.accepted := by
  induction ops with
  | nil => intro i s w0 _; exact List.prefix_refl _
  | cons op ops ih =>
    intro i s w0 h
    have hs : Sim w0 w0 := ⟨rfl, h⟩
    rcases step_sim cfg s op hs with ⟨s', w', hw, _, _, hsim⟩ | ⟨s', w', hw, hok, _⟩
    · simp only [encRunFrom, hw]
      rw [hw] at hsim
      have hmono : w0.accepted <+: w'.accepted := by
        cases op with
        | flush =>
          simp only [encStep, encFlush] at hw
          split at hw
          · obtain ⟨w1, hw1, _, hacc, _⟩ := writeAll_free h (blockChunks cfg s.count s.wb)
            rw [hw1] at hw; cases hw; rw [hacc]; exact List.prefix_append _ _
          · cases hw; exact List.prefix_refl _
        | encode r =>
          simp only [encStep, encEncode, encFlush] at hw
          split at hw
          · split at hw
            · obtain ⟨w1, hw1, _, hacc, _⟩ := writeAll_free h (blockChunks cfg (s.count + 1) (s.wb ++ r))
              rw [hw1] at hw; cases hw; rw [hacc]; exact List.prefix_append _ _
            · cases hw; exact List.prefix_refl _
          · cases hw; exact List.prefix_refl _
      exact List.IsPrefix.trans hmono (ih (i + 1) s' w' hsim.2)
    · rw [hw] at hok; cases hok

theorem runFrom_sim (cfg : EncCfg) (ops : List EncOp) : ∀ (i : Nat) (s : EncState) (w w0 : WState), Sim w w0 →
    (encRunFrom cfg ops i s w).2.1.accepted <+: (encRunFrom cfg ops i s w0).2.1.accepted := by
  induction ops with
  | nil => intro i s w w0 h; simp only [encRunFrom]; rw [h.1]; exact List.prefix_refl _
  | cons op ops ih =>
    intro i s w w0 h
    rcases step_sim cfg s op h with ⟨s', w', hw, hs0, hok0, hsim⟩ | ⟨s', w', hw, hok0, hpre⟩
    · have h0 : encStep cfg s w0 op = (s', (encStep cfg s w0 op).2.1, true) := by
        rw [← hs0, ← hok0]
      simp only [encRunFrom, hw]; rw [h0]
      exact ih (i + 1) s' w' _ hsim
    · have h0 : encStep cfg s w0 op = ((encStep cfg s w0 op).1, (encStep cfg s w0 op).2.1, true) := by
        rw [← hok0]
      simp only [encRunFrom, hw]; rw [h0]
      have hfree0 : (encStep cfg s w0 op).2.1.Free := by
        have hs : Sim w0 w0 := ⟨rfl, h.2⟩
        rcases step_sim cfg s op hs with ⟨_, _, hw2, _, _, hsim2⟩ | ⟨_, _, hw2, hok2, _⟩
        · exact hsim2.2
        · rw [hw2] at hok2; cases hok2
      exact List.IsPrefix.trans hpre (runFrom_free_mono cfg ops (i + 1) _ _ hfree0)

/-- **C16 (prefix)**: whatever the failing call index `k` and however many bytes `acc` that call
accepted, everything the writer accepted is a byte-for-byte prefix of the fault-free output
(same header, hence same sync marker). -/
theorem accepted_prefix (cfg : EncCfg) (k acc : Nat) (ops : List EncOp) :
    (encRun cfg { failAt := k, accept := acc } ops).2.1.accepted <+: (encRun cfg {} ops).2.1.accepted := by
  have hfree : ({} : WState).Free := rfl
  have hsim0 : Sim ({ failAt := k, accept := acc } : WState) {} := ⟨rfl, hfree⟩
  unfold encRun
  rcases write_sim hsim0 cfg.header with ⟨w', hw, hsim⟩ | ⟨w', hw, hpre⟩
  · rw [hw, write_free hfree]; rw [write_free hfree] at hsim
    exact runFrom_sim cfg ops 1 {} w' _ hsim
  · rw [hw, write_free hfree]; rw [write_free hfree] at hpre
    exact List.IsPrefix.trans hpre (runFrom_free_mono cfg ops 1 {} _ (by exact hfree))

/-! ### The error surfaces from the call that issued write number `k` -/

/-- While no call has failed, fewer than `k` writes were issued; the failing call is the one that
issued write `k`. -/
def Before (k : Nat) (w : WState) : Prop := w.failAt = k ∧ w.calls < k

theorem write_before {k : Nat} {w : WState} (h : Before k w) (d : Bytes) :
    ((w.write d).2 = true ∧ Before k (w.write d).1) ∨ ((w.write d).2 = false ∧ (w.write d).1.calls = k) := by
  unfold WState.write
  by_cases hk : w.calls + 1 = w.failAt
  · right; simp only [hk, if_true]; exact ⟨by first | rfl | trivial, by first | exact h.1 | (rw [← h.1]; exact hk) | trivial⟩
  · left; simp only [hk, if_false]; refine ⟨by first | rfl | trivial, h.1, ?_⟩
    have := h.2; have := h.1; show w.calls + 1 < k; omega

theorem writeAll_before {k : Nat} (ds : List Bytes) : ∀ {w : WState}, Before k w →
    ((w.writeAll ds).2 = true ∧ Before k (w.writeAll ds).1) ∨ ((w.writeAll ds).2 = false ∧ (w.writeAll ds).1.calls = k) := by
  induction ds with
  | nil => intro w h; left; exact ⟨rfl, h⟩
  | cons d ds ih =>
    intro w h
    simp only [WState.writeAll]
    rcases write_before h d with ⟨hok, hb⟩ | ⟨hf, hc⟩
    · cases hwd : w.write d with
      | mk w' ok =>
        rw [hwd] at hok hb; simp only at hok hb; subst hok
        exact ih hb
    · cases hwd : w.write d with
      | mk w' ok =>
        rw [hwd] at hf hc; simp only at hf hc; subst hf
        right; exact ⟨rfl, hc⟩

theorem step_before (cfg : EncCfg) {k : Nat} (s : EncState) (op : EncOp) {w : WState} (h : Before k w) :
    ((encStep cfg s w op).2.2 = true ∧ Before k (encStep cfg s w op).2.1) ∨
    ((encStep cfg s w op).2.2 = false ∧ (encStep cfg s w op).2.1.calls = k) := by
  have hfl : ∀ s : EncState, ((encFlush cfg s w).2.2 = true ∧ Before k (encFlush cfg s w).2.1) ∨
      ((encFlush cfg s w).2.2 = false ∧ (encFlush cfg s w).2.1.calls = k) := by
    intro s
    unfold encFlush
    split
    · rcases writeAll_before (blockChunks cfg s.count s.wb) h with ⟨hok, hb⟩ | ⟨hf, hc⟩
      · cases hwa : w.writeAll (blockChunks cfg s.count s.wb) with
        | mk w' ok => rw [hwa] at hok hb; simp only at hok hb; subst hok; left; exact ⟨rfl, hb⟩
      · cases hwa : w.writeAll (blockChunks cfg s.count s.wb) with
        | mk w' ok => rw [hwa] at hf hc; simp only at hf hc; subst hf; right; exact ⟨rfl, hc⟩
    · left; exact ⟨rfl, h⟩
  cases op with
  | flush => exact hfl s
  | encode r =>
    simp only [encStep, encEncode]
    split
    · exact hfl _
    · left; exact ⟨rfl, h⟩

/-- **C16 (the error surfaces)**: if call number `i` is the one reported as failed then exactly `k`
writes had been issued when it returned (so it is the call that triggered write `k`, and every
earlier call returned success); if no call is reported as failed, fewer than `k` writes were issued. -/
theorem runFrom_surfaces (cfg : EncCfg) {k : Nat} (ops : List EncOp) : ∀ (i : Nat) (s : EncState) (w : WState), Before k w →
    match (encRunFrom cfg ops i s w).2.2 with
    | some _ => (encRunFrom cfg ops i s w).2.1.calls = k
    | none => Before k (encRunFrom cfg ops i s w).2.1 := by
  induction ops with
  | nil => intro i s w h; simpa [encRunFrom] using h
  | cons op ops ih =>
    intro i s w h
    simp only [encRunFrom]
    rcases step_before cfg s op h with ⟨hok, hb⟩ | ⟨hf, hc⟩
    · cases hst : encStep cfg s w op with
      | mk s' r => cases r with
        | mk w' ok => rw [hst] at hok hb; simp only at hok hb; subst hok; exact ih (i + 1) s' w' hb
    · cases hst : encStep cfg s w op with
      | mk s' r => cases r with
        | mk w' ok => rw [hst] at hf hc; simp only at hf hc; subst hf; exact hc

theorem error_surfaces (cfg : EncCfg) (k acc : Nat) (hk : 0 < k) (ops : List EncOp) :
    match (encRun cfg { failAt := k, accept := acc } ops).2.2 with
    | some _ => (encRun cfg { failAt := k, accept := acc } ops).2.1.calls = k
    | none => (encRun cfg { failAt := k, accept := acc } ops).2.1.calls < k := by
  have hb : Before k ({ failAt := k, accept := acc } : WState) := ⟨rfl, hk⟩
  unfold encRun
  rcases write_before hb cfg.header with ⟨hok, hb'⟩ | ⟨hf, hc⟩
  · cases hwd : ({ failAt := k, accept := acc } : WState).write cfg.header with
    | mk w' ok =>
      rw [hwd] at hok hb'; simp only at hok hb'; subst hok
      have := runFrom_surfaces cfg ops 1 {} w' hb'
      simp only
      cases hr : (encRunFrom cfg ops 1 {} w').2.2 with
      | some i => rw [hr] at this; simpa [hr] using this
      | none => rw [hr] at this; simpa [hr] using this.2
  · cases hwd : ({ failAt := k, accept := acc } : WState).write cfg.header with
    | mk w' ok =>
      rw [hwd] at hf hc; simp only at hf hc; subst hf
      simpa using hc

/-! Non-vacuity: a failing third write (the size prefix of the first block) with 0 bytes accepted. -/
example :
    let cfg : EncCfg := { blockSize := 1, compress := id, sync := [9, 9], header := [7] }
    (encRun cfg { failAt := 3, accept := 0 } [.encode [1]]).2.2 = some 1 ∧
    (encRun cfg { failAt := 3, accept := 0 } [.encode [1]]).2.1.accepted = [7, 2] := by
  simp [encRun, encRunFrom, encStep, encEncode, encFlush, blockChunks, WState.writeAll, WState.write,
    writeVarint, zigzag, putUvarint]

/-! ### Crash consistency: what a reader makes of what a failing writer left behind

`accepted_prefix` is about bytes; `C08.written_file_truncation` says what the container reader does
with the first `n` bytes of the fault-free output. Together: whatever the failing call `k` and the
number `acc` of bytes it accepted, the file left behind reads as whole blocks of whole records. -/

section
open Avro.File Avro.Crash
variable {α ε : Type}

/-- what the failing writer accepted is the fault-free output cut at that length -/
theorem accepted_eq_take (cfg : EncCfg) (k acc : Nat) (ops : List EncOp) :
    (encRun cfg { failAt := k, accept := acc } ops).2.1.accepted =
      (encRun cfg {} ops).2.1.accepted.take (encRun cfg { failAt := k, accept := acc } ops).2.1.accepted.length :=
  prefix_eq_take (accepted_prefix cfg k acc ops)

/-- **C16 (crash consistency)**: for every `Encode`/`Flush` history `ops`, every writer that fails at
its `k`-th `Write` call after accepting `acc` bytes of it (`k = 0`: never), under the hypotheses of
`EndToEnd.write_then_read` (the header is one the reader accepts, the decompressor undoes the
compressor, representable sizes, `rc.decode` decodes every record encoding `r` exactly to `dec r`),
let `a` be the bytes that writer accepted (the file on disk after the failure). Then `ReadFile` on `a`

* delivers exactly the records of those blocks of the fault-free run (`writtenBlocks cfg dec ops`:
  the reference partition `(specPart cfg.blockSize ops []).1`) whose payload lies completely within
  `a` — `completeVals … a.length`;
* hence a prefix of the records the history encoded, `(encodings ops).map dec`: whole records, in
  order, never a partial or altered one;
* returns success iff `a` ends exactly at the end of the header or of a block (`boundaries`), and
* returns an error in every other case. -/
theorem crash_consistent (cfg : EncCfg) (ops : List EncOp)
    {X : Ext α} {fuel : Nat} {H : Header} {sel : CodecSel} {rc : RecCodec α}
    (hh : ValidHeader X fuel cfg.header H sel rc) (hs : H.sync = cfg.sync)
    (hcomp : ∀ x, decompress X sel (cfg.compress x) = .ok x)
    (hsmall : ∀ blk ∈ (specPart cfg.blockSize ops []).1, (cfg.compress blk.flatten).length ≤ maxLen)
    (dec : Bytes → α) (hdec : ∀ r ∈ encodings ops, ∀ rest, rc.decode (r ++ rest) = .ok (dec r, rest))
    (hn : (encodings ops).length < fuel) (hn63 : (encodings ops).length < 2 ^ 63)
    (cb : Nat → Option ε) (hcb : ∀ i, cb i = none) (k acc : Nat) :
    (readFile X fuel cb (encRun cfg { failAt := k, accept := acc } ops).2.1.accepted).delivered =
        completeVals cfg.sync cfg.header.length (writtenBlocks cfg dec ops)
          (encRun cfg { failAt := k, accept := acc } ops).2.1.accepted.length ∧
    (readFile X fuel cb (encRun cfg { failAt := k, accept := acc } ops).2.1.accepted).delivered <+:
        (encodings ops).map dec ∧
    ((readFile X fuel cb (encRun cfg { failAt := k, accept := acc } ops).2.1.accepted).res = .ok ↔
        (encRun cfg { failAt := k, accept := acc } ops).2.1.accepted.length ∈
          boundaries cfg.sync cfg.header.length (writtenBlocks cfg dec ops)) ∧
    ((encRun cfg { failAt := k, accept := acc } ops).2.1.accepted.length ∉
          boundaries cfg.sync cfg.header.length (writtenBlocks cfg dec ops) →
        ∃ e, (readFile X fuel cb (encRun cfg { failAt := k, accept := acc } ops).2.1.accepted).res = .err e) := by
  have hpre := accepted_prefix cfg k acc ops
  generalize (encRun cfg { failAt := k, accept := acc } ops).2.1.accepted = a at hpre ⊢
  have htake : a = (encRun cfg {} ops).2.1.accepted.take a.length := prefix_eq_take hpre
  have h := C08.written_file_truncation cfg ops hh hs hcomp hsmall dec hdec hn hn63 cb hcb a.length hpre.length_le
  rw [← htake] at h
  exact h

/-- **C16 (crash consistency, corollary form)**: reading what a failing writer accepted delivers a
prefix of the records of the history — nothing partial, altered, reordered or invented. -/
theorem crash_delivers_prefix (cfg : EncCfg) (ops : List EncOp)
    {X : Ext α} {fuel : Nat} {H : Header} {sel : CodecSel} {rc : RecCodec α}
    (hh : ValidHeader X fuel cfg.header H sel rc) (hs : H.sync = cfg.sync)
    (hcomp : ∀ x, decompress X sel (cfg.compress x) = .ok x)
    (hsmall : ∀ blk ∈ (specPart cfg.blockSize ops []).1, (cfg.compress blk.flatten).length ≤ maxLen)
    (dec : Bytes → α) (hdec : ∀ r ∈ encodings ops, ∀ rest, rc.decode (r ++ rest) = .ok (dec r, rest))
    (hn : (encodings ops).length < fuel) (hn63 : (encodings ops).length < 2 ^ 63)
    (cb : Nat → Option ε) (hcb : ∀ i, cb i = none) (k acc : Nat) :
    (readFile X fuel cb (encRun cfg { failAt := k, accept := acc } ops).2.1.accepted).delivered <+:
      (encodings ops).map dec :=
  (crash_consistent cfg ops hh hs hcomp hsmall dec hdec hn hn63 cb hcb k acc).2.1

/-- When the writer did report an error to the caller and the reader nevertheless reports success,
the file ends exactly at a block (or header) end: the reader cannot tell that file from one whose
writer was closed there. (Contrapositive reading of `crash_consistent`'s last clause.) -/
theorem crash_ok_only_at_boundary (cfg : EncCfg) (ops : List EncOp)
    {X : Ext α} {fuel : Nat} {H : Header} {sel : CodecSel} {rc : RecCodec α}
    (hh : ValidHeader X fuel cfg.header H sel rc) (hs : H.sync = cfg.sync)
    (hcomp : ∀ x, decompress X sel (cfg.compress x) = .ok x)
    (hsmall : ∀ blk ∈ (specPart cfg.blockSize ops []).1, (cfg.compress blk.flatten).length ≤ maxLen)
    (dec : Bytes → α) (hdec : ∀ r ∈ encodings ops, ∀ rest, rc.decode (r ++ rest) = .ok (dec r, rest))
    (hn : (encodings ops).length < fuel) (hn63 : (encodings ops).length < 2 ^ 63)
    (cb : Nat → Option ε) (hcb : ∀ i, cb i = none) (k acc : Nat)
    (hok : (readFile X fuel cb (encRun cfg { failAt := k, accept := acc } ops).2.1.accepted).res = .ok) :
    (encRun cfg { failAt := k, accept := acc } ops).2.1.accepted.length ∈
      boundaries cfg.sync cfg.header.length (writtenBlocks cfg dec ops) :=
  (crash_consistent cfg ops hh hs hcomp hsmall dec hdec hn hn63 cb hcb k acc).2.2.1.mp hok

/-! Non-vacuity: the history of `C08.exOpsW` (blocks `[[1]]`, `[[2], [3]]`, record `[4]` pending; the
fault-free file is 91 bytes, boundaries 52, 71, 91). Write calls: 1 = header, 2–5 = block one
(count, size, payload, sync), 6–9 = block two. -/

/-- the hypotheses of `crash_consistent` are met, for every failing call and every accepted count -/
example (k acc : Nat) :
    (readFile C07.exX 9 (fun _ => (none : Option Unit))
      (encRun C08.exCfgW { failAt := k, accept := acc } C08.exOpsW).2.1.accepted).delivered <+: [1, 2, 3, 4] := by
  have := crash_delivers_prefix C08.exCfgW C08.exOpsW C08.exHdrW_valid rfl (fun x => rfl) (by decide) C08.exDecW
    (by intro r hr rest; simp [C08.exOpsW, encodings] at hr; rcases hr with rfl | rfl | rfl | rfl <;> rfl)
    (by decide) (by decide) (fun _ => (none : Option Unit)) (fun _ => rfl) k acc
  simpa [C08.exOpsW, encodings, C08.exDecW] using this

/-- the conclusion, evaluated by the two models. Write 8 (block two's payload) fails after 1 of its 2
bytes: 74 bytes on disk, block one is read, then an error. Write 9 (block two's sync marker) fails
after 5 bytes: the payload is complete, so block two is delivered too, then an error. Write 6 fails
with nothing accepted: the file ends exactly after block one and reads cleanly, while the writer's
caller got the error from API call number 4 (the `Encode` that closed block two). -/
example :
    (encRun C08.exCfgW { failAt := 8, accept := 1 } C08.exOpsW).2.1.accepted.length = 74 ∧
    readFile C07.exX 9 (fun _ => (none : Option Unit)) (encRun C08.exCfgW { failAt := 8, accept := 1 } C08.exOpsW).2.1.accepted
      = ⟨[1], .err .payload⟩ ∧
    readFile C07.exX 9 (fun _ => (none : Option Unit)) (encRun C08.exCfgW { failAt := 9, accept := 5 } C08.exOpsW).2.1.accepted
      = ⟨[1, 2, 3], .err .syncRead⟩ ∧
    (encRun C08.exCfgW { failAt := 6, accept := 0 } C08.exOpsW).2.2 = some 4 ∧
    readFile C07.exX 9 (fun _ => (none : Option Unit)) (encRun C08.exCfgW { failAt := 6, accept := 0 } C08.exOpsW).2.1.accepted
      = ⟨[1], .ok⟩ ∧
    readFile C07.exX 9 (fun _ => (none : Option Unit)) (encRun C08.exCfgW { failAt := 1, accept := 30 } C08.exOpsW).2.1.accepted
      = ⟨[], .err .metaVal⟩ := by
  decide +kernel

end

end Avro.C16
