import AvroModel.Lemmas.Crash
import AvroModel.Snappy
/-!
# C07 on the files the encoder writes

`Props/C07.lean` states the container reader's behaviour for every *valid file*. `EndToEnd.written_valid`
shows that what the encoder writes for any call history is one. Here the clauses of C07 that concern the
callback are stated directly for written files: no hypothesis mentions the file's bytes.
-/
namespace Avro.C07
open Avro Avro.File Avro.EndToEnd Avro.Crash

variable {α ε : Type}

/-- **C07 (callback error), on a written file**: the records of any Encode/Flush history ended by a Flush are
`(encodings ops).map dec`; if the callback fails for the first time at record index `i` with error `e`, exactly
the records `0 .. i` are handed over and the result is that very error value. -/
theorem written_callback_error (cfg : EncCfg) (ops : List EncOp)
    {X : Ext α} {fuel : Nat} {H : Header} {sel : CodecSel} {rc : RecCodec α}
    (hh : ValidHeader X fuel cfg.header H sel rc) (hs : H.sync = cfg.sync)
    (hcomp : ∀ x, decompress X sel (cfg.compress x) = .ok x)
    (hsmall : ∀ blk ∈ (specPart cfg.blockSize (ops ++ [EncOp.flush]) []).1, (cfg.compress blk.flatten).length ≤ maxLen)
    (dec : Bytes → α) (hdec : ∀ r ∈ encodings ops, ∀ rest, rc.decode (r ++ rest) = .ok (dec r, rest))
    (hn : (encodings ops).length < fuel) (hn63 : (encodings ops).length < 2 ^ 63)
    (cb : Nat → Option ε) (i : Nat) (e : ε) (hi : cb i = some e) (hbefore : ∀ j, j < i → cb j = none)
    (hlt : i < (encodings ops).length) :
    readFile X fuel cb (encRun cfg {} (ops ++ [EncOp.flush])).2.1.accepted = ⟨((encodings ops).map dec).take (i + 1), .cb e⟩ := by
  have henc : encodings (ops ++ [EncOp.flush]) = encodings ops := encodings_append_flush ops
  have hv := written_valid cfg (ops ++ [EncOp.flush]) hh hcomp hsmall dec (by rw [henc]; exact hdec)
    (by rw [henc]; exact hn) (by rw [henc]; exact hn63)
  have hall := allVals_written_flushed cfg dec ops
  have := callback_error hv cb i e hi hbefore (by
    show i < (allVals (writtenBlocks cfg dec (ops ++ [EncOp.flush]))).length
    rw [hall]; simpa using hlt)
  rw [written_bytes cfg dec (ops ++ [EncOp.flush]), ← hs]
  have hall' : allVals ((specPart cfg.blockSize (ops ++ [EncOp.flush]) []).1.map (blkOf cfg dec)) = (encodings ops).map dec := hall
  rw [hall'] at this
  exact this

end Avro.C07

namespace Avro.C07
open Avro Avro.File

/-- non-vacuity: the history of `C08.exOpsW`-style examples — two records, a flush, one record; the callback
fails at record 1 -/
example : readFile exX 9 (fun i => if i = 1 then some (7 : Nat) else none)
    (encRun { blockSize := 100, compress := id, sync := exSync, header := exHdr }
      {} ([.encode [1], .encode [2], .flush, .encode [3]] ++ [EncOp.flush])).2.1.accepted = ⟨[1, 2], .cb 7⟩ := by
  decide +kernel

end Avro.C07

/-! ### The snappy length guard (repair of D34) and valid files

The reader model takes decompression as a parameter (`inflate`); for snappy the real reader now refuses a block whose
declared decoded length exceeds 22 times the block's size before it calls the decompressor. "Delivers exactly the
declared records" needs that refusal never to hit a valid block. -/
namespace Avro.C07

/-- a valid snappy block (any length prefix of at least one byte, any sequence of format-conforming elements) passes the
guard `declared ≤ 22 * size` — so the repair rejects damage only -/
theorem snappy_guard_accepts_valid (hdr : Nat) (es : List Snappy.Elem) (hv : ∀ e ∈ es, e.Valid) :
    Snappy.producedLen es ≤ 22 * (hdr + Snappy.encodedLen es) :=
  Snappy.valid_block_within_guard hdr es hv

end Avro.C07
