import AvroModel.Lemmas.Time
/-!
# C18 — Timestamp parsing agrees with the standard library on RFC 3339

Model: `AvroModel/Time.lean` (`parseTime` = time/parse.go:13 index by index, every index and slice
expression a possible `panic` outcome; `renderRFC3339`/`renderDate` = the RFC 3339 grammar as a
generator; `formatNano` = `Time.Format(time.RFC3339Nano)`).

"Same instant and offset as the standard library" is split: the theorems below relate the model of
the library's parser to the renderer (for every field tuple, every fraction of any length, both
separators, every zone); the harness checks on every run that `time.Parse(time.RFC3339, ·)` of the
rendered string yields exactly the expected fields, that the real `parseTime` (reached through
`StringCodec.Read` and `null.Time`) returns the same instant and offset as `time.Parse`, and that
`formatNano` equals `Format(time.RFC3339Nano)`.  Both parsers hand the fields to `time.Date`
(trusted; compared with `unixOf` on every case).
-/
namespace Avro.C18

open Avro Avro.Time

set_option linter.constructorNameAsVariable false

/-! ## no-panic clause -/

theorem parseDate_safe (inp : Bytes) : Safe (fun _ => 10 ≤ inp.length) (parseDate inp) := by
  unfold parseDate
  refine safe_bind (safe_check _ _) fun _ h => ?_
  have hlen : 10 ≤ inp.length := by simp at h; omega
  refine safe_bind (safe_idx (by omega)) fun _ _ => ?_
  refine safe_bind (safe_check _ _) fun _ _ => ?_
  refine safe_bind (safe_idx (by omega)) fun _ _ => ?_
  refine safe_bind (safe_check _ _) fun _ _ => ?_
  refine safe_bind (safe_num (safe_slice_atoi4 (by omega) (by omega))) fun _ _ => ?_
  refine safe_bind (safe_num (safe_slice_atoi2 (by omega) (by omega))) fun _ _ => ?_
  refine safe_bind (safe_num (safe_slice_atoi2 (by omega) (by omega))) fun _ _ => ?_
  exact safe_pure hlen

/-- after the clock part `remaining` is not empty, so `remaining[0]` is in range -/
theorem parseClock_safe (inp : Bytes) : Safe (fun r => 1 ≤ r.2.2.2.length) (parseClock inp) := by
  unfold parseClock
  refine safe_bind (safe_check _ _) fun _ h => ?_
  have hlen : 20 ≤ inp.length := by simp at h; omega
  refine safe_bind (safe_idx (by omega)) fun _ _ => ?_
  refine safe_bind (safe_check _ _) fun _ _ => ?_
  refine safe_bind (safe_idx (by omega)) fun _ _ => ?_
  refine safe_bind (safe_check _ _) fun _ _ => ?_
  refine safe_bind (safe_idx (by omega)) fun _ _ => ?_
  refine safe_bind (safe_check _ _) fun _ _ => ?_
  refine safe_bind (safe_num (safe_slice_atoi2 (by omega) (by omega))) fun _ _ => ?_
  refine safe_bind (safe_num (safe_slice_atoi2 (by omega) (by omega))) fun _ _ => ?_
  refine safe_bind (safe_num (safe_slice_atoi2 (by omega) (by omega))) fun _ _ => ?_
  refine safe_bind (safe_sliceFrom (by omega) (by omega)) fun rem hr => ?_
  refine safe_pure ?_
  simp at hr ⊢; omega

/-- the fraction part: `remaining[1:]`, the loop and `remaining[i+1:]` stay in range (the loop
leaves `-1 ≤ i < len`), and what is left for the zone is again not empty -/
theorem parseFrac_safe (rem : Bytes) (h : 1 ≤ rem.length) :
    Safe (fun r => 1 ≤ r.2.length) (parseFrac rem) := by
  unfold parseFrac
  refine safe_bind (safe_idx (by omega)) fun c _ => ?_
  split
  · refine safe_bind (safe_sliceFrom (by omega) (by omega)) fun rem1 _ => ?_
    refine safe_bind (safe_check _ _) fun _ hne => ?_
    have hne' : rem1 ≠ [] := by intro h0; simp [h0] at hne
    have hb := fracLoop_bounds rem1 0 0 0 1000000000 hne'
    simp only []
    refine safe_bind (safe_sliceFrom (by omega) (by omega)) fun rem2 _ => ?_
    refine safe_bind (safe_check _ _) fun _ hne2 => ?_
    refine safe_pure ?_
    have : rem2.length ≠ 0 := by simpa using hne2
    simp; omega
  · exact safe_pure h

theorem parseZone_safe (rem : Bytes) (h : 1 ≤ rem.length) :
    Safe (fun _ => True) (parseZone rem) := by
  unfold parseZone
  refine safe_bind (safe_idx (by omega)) fun c _ => ?_
  refine safe_bind (safe_sliceFrom (by omega) (by omega)) fun rem1 _ => ?_
  split
  · exact safe_pure trivial
  · refine safe_bind (Q := fun _ => True) ?_ fun sign _ => ?_
    · split
      · trivial
      · split <;> trivial
    refine safe_bind (safe_check _ _) fun _ hl => ?_
    have hlen : 5 ≤ rem1.length := by simp at hl; omega
    refine safe_bind (safe_idx (by omega)) fun _ _ => ?_
    refine safe_bind (safe_check _ _) fun _ _ => ?_
    refine safe_bind (safe_num (safe_slice_atoi2 (by omega) (by omega))) fun _ _ => ?_
    refine safe_bind (safe_num (safe_slice_atoi2 (by omega) (by omega))) fun _ _ => ?_
    refine safe_bind (safe_sliceFrom (by omega) (by omega)) fun _ _ => ?_
    exact safe_pure trivial

theorem parseTime_safe (inp : Bytes) : Safe (fun _ => True) (parseTime inp) := by
  unfold parseTime
  refine safe_bind (parseDate_safe inp) fun ymd _ => ?_
  split
  · exact safe_pure trivial
  · refine safe_bind (parseClock_safe inp) fun clk hc => ?_
    refine safe_bind (parseFrac_safe _ hc) fun fr hf => ?_
    refine safe_bind (parseZone_safe _ hf) fun zn _ => ?_
    refine safe_bind (safe_check _ _) fun _ _ => ?_
    exact safe_pure trivial

/-- **No-panic clause**: on every byte string whatsoever `parseTime` returns a time or an
error; none of its index, slice or `atoi` expressions can go out of range. -/
theorem total : ∀ (bs : Bytes) (k : TPanic), parseTime bs ≠ .panic k :=
  fun bs => (parseTime_safe bs).noPanic

/-- The same through `StringCodec.Read` / `nullTimeCodec.Read`: whatever the framed bytes. -/
theorem stringCodecRead_total : ∀ (bs : Bytes) (k : TPanic), stringCodecRead bs ≠ .panic k := by
  intro bs k
  unfold stringCodecRead
  split
  · simp
  · split
    · simp
    · split
      · simp
      · have := total (List.take (Int.toNat ‹Int›) ‹Bytes›)
        cases hp : parseTime (List.take (Int.toNat ‹Int›) ‹Bytes›) with
        | ok a => simp
        | err e => simp
        | panic k' => exact absurd hp (this k')

/-! ## agreement clause -/

/-- field widths of the generator: what fits in the digits of the grammar -/
structure Fits (f : TimeFields) : Prop where
  year : f.year ≤ 9999
  month : f.month ≤ 99
  day : f.day ≤ 99
  hour : f.hour ≤ 99
  min : f.min ≤ 99
  sec : f.sec ≤ 99

def ZoneFits : Zone → Prop
  | .z => True
  | .off _ hh mm => hh ≤ 99 ∧ mm ≤ 99

theorem fits_of_valid {f : TimeFields} (h : ValidFields f) : Fits f := by
  obtain ⟨⟨hy, hm, hd⟩, hh, hmi, hs⟩ := h
  refine ⟨hy, by omega, ?_, by omega, by omega, by omega⟩
  have : daysInMonth f.year f.month ≤ 31 := by
    unfold daysInMonth; split <;> (try split) <;> omega
  omega

theorem zoneFits_of_valid {z : Zone} (h : z.Valid) : ZoneFits z := by
  cases z with
  | z => trivial
  | off n hh mm =>
    have h' : hh ≤ 23 ∧ mm ≤ 59 := h
    exact ⟨by omega, by omega⟩

theorem parseDate_render (y m d : Nat) (hy : y ≤ 9999) (hm : m ≤ 99) (hd : d ≤ 99) (tl : Bytes) :
    parseDate (renderDate y m d ++ tl) = .ok (y, m, d) := by
  simp +arith [parseDate, renderDate, d4, d2, check, idx, slice, num, hy, hm, hd]

theorem parseClock_render (y m d h mi s : Nat) (hh : h ≤ 99) (hmi : mi ≤ 99) (hs : s ≤ 99)
    (tl : Bytes) (htl : tl ≠ []) :
    parseClock (renderDate y m d ++ [84] ++ d2 h ++ [58] ++ d2 mi ++ [58] ++ d2 s ++ tl)
      = .ok (h, mi, s, tl) := by
  have : 1 ≤ tl.length := by cases tl with
    | nil => exact absurd rfl htl
    | cons a b => simp
  simp +arith [parseClock, renderDate, d4, d2, check, idx, slice, sliceFrom, num, hh, hmi, hs, htl]

theorem zone_head (z : Zone) : ∃ c rest, renderZone z = c :: rest ∧ c.toNat ≠ 46 ∧ c.toNat ≠ 44 ∧
    ¬ (48 ≤ c.toNat ∧ c.toNat ≤ 57) := by
  cases z with
  | z => exact ⟨90, [], rfl, by decide, by decide, by decide⟩
  | off neg hh mm =>
    cases neg
    · exact ⟨43, _, rfl, by decide, by decide, by decide⟩
    · exact ⟨45, _, rfl, by decide, by decide, by decide⟩

/-- the fraction part of a rendered string: nanoseconds = first nine digits, right-padded -/
theorem parseFrac_render (frac : List (Fin 10)) (sep : UInt8) (hsep : sep = 46 ∨ sep = 44) (z : Zone) :
    parseFrac (renderFrac frac sep ++ renderZone z) = .ok (fracNanos frac, renderZone z) := by
  obtain ⟨c, rest, hz, h46, h44, hnd⟩ := zone_head z
  cases frac with
  | nil =>
    simp only [renderFrac, List.nil_append, hz, parseFrac, idx, List.getElem?_cons_zero, ok_bind]
    have : ¬ ((c.toNat == 46 || c.toNat == 44) = true) := by simp [h46, h44]
    rw [if_neg this]
    simp [fracNanos, digitsVal]
  | cons d ds =>
    have hs : (sep.toNat == 46 || sep.toNat == 44) = true := by
      rcases hsep with rfl | rfl <;> decide
    simp only [renderFrac, List.cons_append, parseFrac, idx, List.getElem?_cons_zero, ok_bind, hs,
      if_true]
    rw [sliceFrom_of_le (by omega) (by simp; omega)]
    simp only [ok_bind, Int.toNat_one, List.drop_succ_cons, List.drop_zero]
    rw [hz]
    have hloop := fracLoop_digits rest c hnd (d :: ds) 0 0 0 1000000000
    have hacc := accum_spec (d :: ds) 0 9
    simp only [show (10 : Nat) ^ 9 = 1000000000 by decide] at hacc
    rw [hloop]
    simp only [hacc]
    have hne : ((List.map (fun d => dig d.val) (d :: ds) ++ c :: rest).length != 0) = true := by
      simp
    simp only [check, hne, if_true, ok_bind]
    rw [sliceFrom_of_le (by simp; omega) (by simp; omega)]
    have hdrop : (((0 + (d :: ds).length : Nat) : Int) - 1 + 1).toNat
        = (List.map (fun d => dig d.val) (d :: ds)).length := by
      simp
    rw [hdrop, List.drop_left]
    simp [fracNanos]

theorem parseZone_render (z : Zone) (hz : ZoneFits z) :
    parseZone (renderZone z) = .ok (z.seconds, []) := by
  cases z with
  | z => simp [parseZone, renderZone, idx, sliceFrom, Zone.seconds]
  | off neg hh mm =>
    obtain ⟨h1, h2⟩ := hz
    cases neg <;>
      simp +arith [parseZone, renderZone, d2, idx, sliceFrom, slice, check, num, h1, h2, Zone.seconds,
        Nat.mul_assoc]

theorem renderZone_ne_nil (z : Zone) : renderZone z ≠ [] := by
  cases z <;> simp [renderZone]

/-- General form of the agreement theorem: every field tuple that fits the digit widths of the
grammar (not only calendar-valid ones), any fraction, both separators, any two-digit zone. -/
theorem parse_render (f : TimeFields) (hf : Fits f) (frac : List (Fin 10)) (sep : UInt8)
    (hsep : sep = 46 ∨ sep = 44) (z : Zone) (hz : ZoneFits z) :
    parseTime (renderRFC3339 f frac sep z)
      = .ok { f with nsec := fracNanos frac, offset := z.seconds } := by
  obtain ⟨hy, hm, hd, hh, hmi, hs⟩ := hf
  have hne : renderFrac frac sep ++ renderZone z ≠ [] := by
    simp [renderZone_ne_nil]
  have hlen : (renderRFC3339 f frac sep z).length ≠ 10 := by
    have : 1 ≤ (renderZone z).length := by
      cases z <;> simp [renderZone]
    simp [renderRFC3339, renderDate, d4, d2]
  unfold parseTime
  have e1 : renderRFC3339 f frac sep z = renderDate f.year f.month f.day ++
      ([84] ++ d2 f.hour ++ [58] ++ d2 f.min ++ [58] ++ d2 f.sec ++ renderFrac frac sep ++ renderZone z) := by
    simp [renderRFC3339]
  have e2 : renderRFC3339 f frac sep z = renderDate f.year f.month f.day ++ [84] ++ d2 f.hour ++ [58]
      ++ d2 f.min ++ [58] ++ d2 f.sec ++ (renderFrac frac sep ++ renderZone z) := by
    simp [renderRFC3339]
  rw [show parseDate (renderRFC3339 f frac sep z) = .ok (f.year, f.month, f.day) by
        rw [e1]; exact parseDate_render _ _ _ hy hm hd _]
  rw [show parseClock (renderRFC3339 f frac sep z)
        = .ok (f.hour, f.min, f.sec, renderFrac frac sep ++ renderZone z) by
        rw [e2]; exact parseClock_render _ _ _ _ _ _ hh hmi hs _ hne]
  simp only [ok_bind, beq_iff_eq, hlen, if_false]
  rw [parseFrac_render frac sep hsep z]
  simp only [ok_bind]
  rw [parseZone_render z hz]
  simp [check]

/-- **Agreement clause, date-time**: for all valid fields, every fraction digit list of any
length, both separators, `Z` or any `±hh:mm` offset, parsing the rendered string yields the
fields, nanoseconds = the first nine fraction digits right-padded with zeros, offset = the
zone's seconds.  (`time.Parse` yields the same: checked by the harness on every generated string.) -/
theorem rfc3339 (f : TimeFields) (hf : ValidFields f) (frac : List (Fin 10)) (sep : UInt8)
    (hsep : sep = 46 ∨ sep = 44) (z : Zone) (hz : z.Valid) :
    parseTime (renderRFC3339 f frac sep z)
      = .ok { f with nsec := fracNanos frac, offset := z.seconds } :=
  parse_render f (fits_of_valid hf) frac sep hsep z (zoneFits_of_valid hz)

/-- the instant is the one the calendar assigns: what `time.Date` computes from the result -/
theorem rfc3339_instant (f : TimeFields) (hf : ValidFields f) (frac : List (Fin 10)) (sep : UInt8)
    (hsep : sep = 46 ∨ sep = 44) (z : Zone) (hz : z.Valid) :
    ∃ g, parseTime (renderRFC3339 f frac sep z) = .ok g ∧
      unixOf g = unixOf { f with offset := 0 } - z.seconds ∧ g.nsec = fracNanos frac ∧
      g.offset = z.seconds := by
  refine ⟨_, rfc3339 f hf frac sep hsep z hz, ?_, rfl, rfl⟩
  simp [unixOf, goDateUnix]

/-- non-vacuity: 2024-02-29T23:59:59,123456789012345-23:59 (leap day, comma, 15 digits) -/
example : parseTime (renderRFC3339 ⟨2024, 2, 29, 23, 59, 59, 0, 0⟩
    [1, 2, 3, 4, 5, 6, 7, 8, 9, 0, 1, 2, 3, 4, 5] 44 (.off true 23 59))
    = .ok ⟨2024, 2, 29, 23, 59, 59, 123456789, -86340⟩ := by
  rw [rfc3339 _ ⟨⟨by decide, by decide, by decide⟩, by decide, by decide, by decide⟩ _ _ (Or.inr rfl) _
    (by simp [Zone.Valid])]
  simp [fracNanos, digitsVal, Zone.seconds]
  decide

/-- **Agreement clause, date only**: every `YYYY-MM-DD` date parses to midnight UTC of that day. -/
theorem date_only (y m d : Nat) (hd : ValidDate y m d) :
    parseTime (renderDate y m d) = .ok ⟨y, m, d, 0, 0, 0, 0, 0⟩ := by
  obtain ⟨hy, hm, hdd⟩ := hd
  have : daysInMonth y m ≤ 31 := by
    unfold daysInMonth; split <;> (try split) <;> omega
  unfold parseTime
  have h := parseDate_render y m d hy (by omega) (by omega) []
  simp only [List.append_nil] at h
  rw [h]
  simp [renderDate, d4, d2]

example : parseTime (renderDate 0 2 29) = .ok ⟨0, 2, 29, 0, 0, 0, 0, 0⟩ :=
  date_only 0 2 29 ⟨by decide, by decide, by decide⟩

/-! ## format-then-parse clause -/

theorem trimZeros_append : ∀ ds : List (Fin 10),
    trimZeros ds ++ List.replicate (ds.length - (trimZeros ds).length) 0 = ds ∧
      (trimZeros ds).length ≤ ds.length
  | [] => by simp [trimZeros]
  | d :: ds => by
    obtain ⟨ih, il⟩ := trimZeros_append ds
    rw [trimZeros]
    cases h0 : trimZeros ds with
    | nil =>
      rw [h0] at ih
      simp only [List.length_nil, List.nil_append, Nat.sub_zero] at ih
      by_cases hd : d = 0
      · subst hd
        simp only [if_true, List.length_nil, List.nil_append, Nat.sub_zero, List.length_cons]
        rw [List.replicate_succ, ih]
        simp
      · simp only [hd, if_false, List.length_cons, List.length_nil, List.cons_append, List.nil_append]
        simp [ih]
    | cons a t =>
      rw [h0] at ih il
      simp only [List.length_cons, List.cons_append] at ih il ⊢
      constructor
      · rw [show ds.length + 1 - (t.length + 1 + 1) = ds.length - (t.length + 1) by omega]
        rw [ih]
      · omega

theorem digitsVal_digits9 (n : Nat) (h : n < 1000000000) : digitsVal 0 (digits9 n) = n := by
  simp only [digitsVal, digits9, List.foldl_cons, List.foldl_nil]
  omega

/-- trimming trailing zeros of the nine digits does not change the nanoseconds read back -/
theorem fracNanos_trim (n : Nat) (h : n < 1000000000) : fracNanos (trimZeros (digits9 n)) = n := by
  obtain ⟨happ, hle⟩ := trimZeros_append (digits9 n)
  have h9 : (digits9 n).length = 9 := rfl
  rw [h9] at happ hle
  unfold fracNanos
  rw [List.take_of_length_le hle, happ]
  exact digitsVal_digits9 n h

/-- whole-minute offset of less than 100 hours (two-digit hours in the `Z07:00` layout) -/
def WholeMinute (off : Int) : Prop := off % 60 = 0 ∧ -360000 < off ∧ off < 360000

theorem zoneOfOffset_fits (off : Int) (h : WholeMinute off) :
    ZoneFits (zoneOfOffset off) ∧ (zoneOfOffset off).seconds = off := by
  obtain ⟨hm, hlo, hhi⟩ := h
  unfold zoneOfOffset
  split
  · subst_vars; exact ⟨trivial, rfl⟩
  · constructor
    · exact ⟨by omega, by omega⟩
    · simp only [Zone.seconds]
      by_cases hn : off < 0
      · simp only [hn, decide_true, if_true]; omega
      · simp only [hn, decide_false]; simp; omega

/-- **Format-then-parse clause**: formatting any time (year 0000–9999, whole-minute offset) with
nanosecond precision and parsing the text back yields the same fields, the same nanoseconds and
the same offset. -/
theorem format_parse (f : TimeFields) (hf : ValidFields f) (hn : f.nsec < 1000000000)
    (hz : WholeMinute f.offset) : parseTime (formatNano f) = .ok f := by
  obtain ⟨hfit, hsec⟩ := zoneOfOffset_fits f.offset hz
  unfold formatNano
  rw [parse_render f (fits_of_valid hf) _ 46 (Or.inl rfl) _ hfit, fracNanos_trim f.nsec hn, hsec]

/-- non-vacuity: 1969-12-31T23:59:59.00000012-13:30 (before 1970, negative offset) -/
example : parseTime (formatNano ⟨1969, 12, 31, 23, 59, 59, 120, -48600⟩)
    = .ok ⟨1969, 12, 31, 23, 59, 59, 120, -48600⟩ :=
  format_parse _ ⟨⟨by decide, by decide, by decide⟩, by decide, by decide, by decide⟩ (by decide)
    ⟨by decide, by decide, by decide⟩

end Avro.C18
