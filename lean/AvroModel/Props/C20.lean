import AvroModel.Lemmas.SchemaGen
/-!
# C20 — A registered custom codec governs its type everywhere and nothing else
-/
namespace Avro.C20
open Avro

/-- **Last registration wins** (schema registry): after `RegisterSchema(R, s₁); RegisterSchema(R, s₂)`
the lookup of `R` yields `s₂`. -/
theorem last_wins_schema (r : SReg) (id : Nat) (u : GoType) (s₁ s₂ : Schema) :
    sregLookup ((r.register id s₁).register id s₂) (.custom id u) = some s₂ := by
  simp [sregLookup, SReg.register, assocLookup]

end Avro.C20
