import AvroModel.Lemmas.Governs
import AvroModel.Lemmas.Unaffected
/-!
# C20 — A registered custom codec governs its type everywhere and nothing else

Models: `Build.lean` (`buildCodec`: pointers are unwrapped first, then the codec registry is consulted
for every schema that is neither a union nor null; unions recurse on their branches with the same Go
type) and `SchemaGen.lean` (`schemaForType`: the schema registry is consulted first).
A *position* of a type tree is a context `Ctx` with a hole: a path through pointers, slices, arrays,
map values and struct fields with arbitrary sibling fields (`Lemmas/SchemaGen.lean`).

* `governs_schema`: at every position, schema generation emits the registered schema, wrapped only by
  the documented wrappers of the path (`CtxSchema`);
* `governs_codec`: in the codec tree built for that generated schema, the codec at the hole (`nav`) is
  exactly what the registered builder returns for the core of the registered schema — for every
  position, every fuel, every `omitempty` flag, whatever the siblings;
* `unaffected_schema`, `unaffected_codec`: a registration changes nothing for types in which the
  registered type does not occur;
* `last_wins_schema`, `last_wins_codec`;
* the library's own registrations: `lib_time_*`, `lib_null_*`, `governs_time`.

Exceptions made precise (and proved): `byte_element_bypasses` (a slice of a registered type of kind
uint8 is `bytes`: the element type is never looked up), `null_schema_bypasses` (a type registered
with the schema `null` gets the null codec, not its builder). The hypotheses of `governs_codec` say so:
`isByteKind env R = false`, `RegShape rs core`. Positions inside Go arrays `[n]T` have a schema but
no codec (`buildCodec` refuses arrays), so `governs_codec` is vacuous there while `governs_schema`
still holds. A later sibling field with the same JSON name takes over the schema field of an earlier
one (`ntf[name]`, last wins): hypothesis `NoShadow` (cf. C15 finding D24).
-/
namespace Avro.C20
open Avro

/-- **Schema generation emits the registered schema at every position** of a registered type `R`
(registered for the schema registry with `rs`): the schema of `c[R]` is `rs` wrapped by exactly the
wrappers of the path `c`. -/
theorem governs_schema (sreg : SReg) (env : TEnv) (R : GoType) (rs : Schema) (hS : sregLookup sreg R = some rs)
    (hbyte : isByteKind env R = false) (c : Ctx) (hi : c.Included) (fuel : Nat) (ps : List GoType) (S : Schema)
    (h : schemaForType sreg env fuel ps (c.fill R) = .ok S) : CtxSchema c rs S :=
  governs_schema_aux hS hbyte c hi fuel ps S h

/-- **The registered builder governs every position.** `R` registered with builder `b` and schema `rs`
(plain, or the nullable union of the plain schema `core`); for every position `c`, if the codec for
the generated schema of `c[R]` is built at all, then at the hole of `c` it holds exactly `b core`. -/
theorem governs_codec (reg : Reg) (sreg : SReg) (env : TEnv) (R : GoType) (b : Schema → Except String Codec)
    (rs core : Schema) (hR : regLookup reg R = some b) (hS : sregLookup sreg R = some rs)
    (hshape : RegShape rs core) (hflat : RegSchemasFlat sreg) (hbyte : isByteKind env R = false)
    (c : Ctx) (hi : c.Included) (hs : c.NoShadow) (fuelG : Nat) (ps : List GoType) (S : Schema)
    (hgen : schemaForType sreg env fuelG ps (c.fill R) = .ok S)
    (fuel : Nat) (oe : Bool) (cd : Codec) (hbuild : buildCodec reg fuel S (some (c.fill R)) oe = .ok cd) :
    ∃ l, nav (rs.type == "union") c false cd = some l ∧ b core = .ok l :=
  (governs_aux hR hS hshape hflat hbyte c hi hs fuelG ps S hgen).1 fuel oe cd hbuild

/-- a user-defined type `custom 1` (a named struct) registered with the schema `[null, string]` and a
builder that accepts `string` -/
def demoSReg : SReg := SReg.empty.register 1 (nullableSchema (.prim "string"))
def demoReg : Reg := ({ lib := true, custom := fun _ => none } : Reg).register 1 (fun s => s.type == "string")
def demoR : GoType := .custom 1 (.struct "R" "p" [.mk "A" true "" "" (.int 64)])
/-- `struct{ Pre int64; X []*R `json:"x,omitempty"`; Post string }` -/
def demoT : GoType :=
  .struct "T" "p" [.mk "Pre" true "" "" (.int 64), .mk "X" true "x,omitempty" "" (.slice (.ptr demoR)),
    .mk "Post" true "" "" .string]

/-- non-vacuity of `governs_codec`: the schema is generated, the codec is built, and at the position
of `R` (field `x`, under the omitempty union, in the slice, behind the pointer, under the registered
union) sits the registered codec `custom 1`. -/
example :
    schemaForType demoSReg TEnv.empty 6 [] demoT =
      .ok (recordSchema "T" "p" [.mk "Pre" (.prim "long"),
        .mk "x" (nullableSchema (arraySchema (nullableSchema (.prim "string")))), .mk "Post" (.prim "string")]) := by rfl
example :
    (match buildCodec demoReg 20 (recordSchema "T" "p" [.mk "Pre" (.prim "long"),
        .mk "x" (nullableSchema (arraySchema (nullableSchema (.prim "string")))), .mk "Post" (.prim "string")])
        (some demoT) false with
      | .ok cd => nav true (.field "T" "p" [.mk "Pre" true "" "" (.int 64)] "X" "x,omitempty" ""
          (.slice (.ptr .hole)) [.mk "Post" true "" "" .string]) false cd
      | .error _ => none) = some (.custom 1) := by rfl

/-- **Unaffected (schema)**: registering a schema for `custom id` does not change the schema generated
for a type tree (and environment) in which `custom id` does not occur. -/
theorem unaffected_schema (sreg : SReg) (env : TEnv) (id : Nat) (s : Schema)
    (henv : ∀ n t, env n = some t → t.mentions id = false) (fuel : Nat) (ps : List GoType) (T : GoType)
    (hT : T.mentions id = false) :
    schemaForType (sreg.register id s) env fuel ps T = schemaForType sreg env fuel ps T :=
  unaffected_schema_aux sreg env id s henv fuel ps T hT

/-- **Unaffected (codec)**: registering a builder for `custom id` does not change the codec built for
any schema and any Go type in which `custom id` does not occur. -/
theorem unaffected_codec (reg : Reg) (id : Nat) (acc : Schema → Bool) (fuel : Nat) (s : Schema) (T : GoType) (oe : Bool)
    (hT : T.mentions id = false) :
    buildCodec (reg.register id acc) fuel s (some T) oe = buildCodec reg fuel s (some T) oe :=
  (unaff_all reg id acc fuel).build s (some T) oe hT

/-- non-vacuity: `struct{ A int64; T *time.Time }` does not mention `custom 1` -/
example : (GoType.struct "U" "p" [.mk "A" true "" "" (.int 64), .mk "T" true "" "" (.ptr .time)]).mentions 1 = false := by
  rfl

/-- **Last registration wins** (schema registry): after `RegisterSchema(R, s₁); RegisterSchema(R, s₂)`
the lookup of `R` yields `s₂`. -/
theorem last_wins_schema (r : SReg) (id : Nat) (u : GoType) (s₁ s₂ : Schema) :
    sregLookup ((r.register id s₁).register id s₂) (.custom id u) = some s₂ := by
  simp [sregLookup, SReg.register, assocLookup]

/-- **Last registration wins** (codec registry): after `Register(R, b₁); Register(R, b₂)` the builder
found for `R` is `b₂`, as if `b₁` had never been registered. -/
theorem last_wins_codec (r : Reg) (id : Nat) (u : GoType) (a₁ a₂ : Schema → Bool) :
    regLookup ((r.register id a₁).register id a₂) (.custom id u) = regLookup (r.register id a₂) (.custom id u) := by
  simp [regLookup, Reg.register]

/-- … and the earlier registration of another type is kept -/
theorem register_other (r : Reg) (id id' : Nat) (u : GoType) (a : Schema → Bool) (h : id' ≠ id) :
    regLookup (r.register id a) (.custom id' u) = regLookup r (.custom id' u) := by
  simp [regLookup, Reg.register, h]

/-! ## Exceptions, made precise -/

/-- a slice whose element type is a registered type of kind uint8 is `bytes`: the element type's
registration is not consulted -/
theorem byte_element_bypasses (sreg : SReg) (env : TEnv) (id : Nat) (fuel : Nat) (ps : List GoType)
    (hps : ps.any (GoType.beq (.slice (.custom id (.uint 8)))) = false) :
    schemaForType sreg env (fuel + 1) ps (.slice (.custom id (.uint 8))) = .ok (.prim "bytes") := by
  rw [schemaForType_succ, genStep_nonref _ _ _ _ _ (by intro n h; cases h), genResolved_composite _ _ _ _ _ rfl rfl]
  simp [hps, GoType.strip, genKind, isByteKind, resolve]

/-- a type registered with the schema `null` gets the null codec: null schemas never reach the registry -/
theorem null_schema_bypasses (reg : Reg) (fuel : Nat) (R : GoType) (oe : Bool) :
    buildCodec reg (fuel + 2) (.prim "null") (some R) oe = .ok .null := by
  simp [buildCodec, buildKind, Schema.prim, Schema.type]

/-! ## The library's own registrations -/

/-- the library's codec registry (after `time.RegisterCodecs()` and `null.RegisterCodecs()`) -/
def libReg : Reg := { lib := true, custom := fun _ => none }

theorem lib_time_registered : regLookup libReg .time = some buildTime := rfl
theorem lib_null_registered (k : NullKind) : regLookup libReg (.nullT k) = some (buildNull k) := rfl

/-- time.Time under a string schema, a long schema (plain, timestamp-micros, timestamp-millis) and an
int schema with logical type date -/
theorem lib_time_string : buildTime (.prim "string") = .ok .timeString := by rfl
theorem lib_time_long : buildTime (.prim "long") = .ok (.timeLong 1) := by rfl
theorem lib_time_micros :
    buildTime (.mk "long" (some (.mk "" "timestamp-micros" "" "" [] Schema.zero Schema.zero 0 [])) []) =
      .ok (.timeLong 1000) := by rfl
theorem lib_time_millis :
    buildTime (.mk "long" (some (.mk "" "timestamp-millis" "" "" [] Schema.zero Schema.zero 0 [])) []) =
      .ok (.timeLong 1000000) := by rfl
theorem lib_time_date :
    buildTime (.mk "int" (some (.mk "" "date" "" "" [] Schema.zero Schema.zero 0 [])) []) = .ok .date := by rfl
/-- any other schema type is refused by the time builder -/
theorem lib_time_refuses (s : Schema) (h1 : s.type ≠ "string") (h2 : s.type ≠ "long") (h3 : s.type ≠ "int") :
    ∃ e, buildTime s = .error e := by
  simp [buildTime, h1, h2, h3]

/-- what each `null.*` builder accepts -/
theorem lib_null_int (s : Schema) : (∃ c, buildNull .int s = .ok c) ↔ (s.type = "long" ∨ s.type = "int") := by
  simp only [buildNull]; split <;> simp_all
theorem lib_null_bool (s : Schema) : (∃ c, buildNull .bool s = .ok c) ↔ s.type = "boolean" := by
  simp only [buildNull]; split <;> simp_all
theorem lib_null_float (s : Schema) : (∃ c, buildNull .double s = .ok c) ↔ (s.type = "double" ∨ s.type = "float") := by
  simp only [buildNull]; split
  · simp_all
  · split <;> simp_all
theorem lib_null_string (s : Schema) : (∃ c, buildNull .string s = .ok c) ↔ s.type = "string" := by
  simp only [buildNull]; split <;> simp_all
theorem lib_null_time (s : Schema) : (∃ c, buildNull .time s = .ok c) ↔ s.type = "string" := by
  simp only [buildNull]; split <;> simp_all

/-- the schema each library type is registered with is accepted by its own builder (core = the
non-null branch) -/
theorem lib_self_consistent (k : NullKind) :
    ∃ core c, nullTSchema k = nullableSchema core ∧ buildNull k core = .ok c := by
  cases k
  · exact ⟨.prim "long", _, rfl, rfl⟩
  · exact ⟨.prim "boolean", _, rfl, rfl⟩
  · exact ⟨.prim "double", _, rfl, rfl⟩
  · exact ⟨.prim "double", _, rfl, rfl⟩
  · exact ⟨.prim "string", _, rfl, rfl⟩
  · exact ⟨.prim "string", _, rfl, rfl⟩

/-- **time.Time governs every position**: in the codec built for the generated schema of any type
with a `time.Time` at position `c`, the codec at that position is the RFC 3339 string codec. -/
theorem governs_time (sreg : SReg) (env : TEnv) (hflat : RegSchemasFlat sreg) (c : Ctx) (hi : c.Included)
    (hs : c.NoShadow) (fuelG : Nat) (ps : List GoType) (S : Schema)
    (hgen : schemaForType sreg env fuelG ps (c.fill .time) = .ok S)
    (fuel : Nat) (oe : Bool) (cd : Codec) (hbuild : buildCodec libReg fuel S (some (c.fill .time)) oe = .ok cd) :
    nav true c false cd = some .timeString := by
  obtain ⟨l, hl, hb⟩ := governs_codec libReg sreg env .time buildTime (nullableSchema (.prim "string")) (.prim "string")
    rfl rfl (.nullable (by decide) (by decide)) hflat rfl c hi hs fuelG ps S hgen fuel oe cd hbuild
  cases hb
  exact hl

/-- **null.\* govern every position** likewise -/
theorem governs_null (k : NullKind) (sreg : SReg) (env : TEnv) (hflat : RegSchemasFlat sreg) (c : Ctx) (hi : c.Included)
    (hs : c.NoShadow) (fuelG : Nat) (ps : List GoType) (S : Schema)
    (hgen : schemaForType sreg env fuelG ps (c.fill (.nullT k)) = .ok S)
    (fuel : Nat) (oe : Bool) (cd : Codec) (hbuild : buildCodec libReg fuel S (some (c.fill (.nullT k))) oe = .ok cd) :
    ∃ l, nav true c false cd = some l ∧ ∃ core, nullTSchema k = nullableSchema core ∧ buildNull k core = .ok l := by
  obtain ⟨core, c0, hcore, hc0⟩ := lib_self_consistent k
  have hshape : RegShape (nullTSchema k) core := by
    rw [hcore]
    cases k <;> cases hcore <;> exact .nullable (by decide) (by decide)
  obtain ⟨l, hl, hb⟩ := governs_codec libReg sreg env (.nullT k) (buildNull k) (nullTSchema k) core
    rfl rfl hshape hflat rfl c hi hs fuelG ps S hgen fuel oe cd hbuild
  have : (nullTSchema k).type == "union" := by cases k <;> rfl
  rw [this] at hl
  exact ⟨l, hl, core, hcore, hb⟩

end Avro.C20
