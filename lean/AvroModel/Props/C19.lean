import AvroModel.Lemmas.Time
/-!
# C19 — Logical date and timestamp types decode to the instant the spec defines

Model: `AvroModel/Time.lean`: `dateRead`/`dateWrite` = `DateCodec.Read`/`Write` (time/time.go:61, 81),
`longRead`/`longWrite` = `LongCodec.Read`/`Write` (time/time.go:151, 171) for the three multipliers
chosen by `buildTimeCodec` (time/time.go:25): plain long → 1 (nanoseconds), `timestamp-micros` → 1000,
`timestamp-millis` → 1000000.  Instants are integers: `Instant.sec` Unix seconds, `Instant.nsec`
nanosecond within the second; `Instant.nanos` is the instant in nanoseconds since the epoch.
Go's fixed-width arithmetic is explicit (`wrapS 64 (l * mult)`, `int32(secs / 86400)`); the
hypotheses say exactly when it does not wrap.  `time.Date`/`time.Unix` are trusted
(`goDateUnix`, `ofUnixNano`) and compared with the implementation on every harness case.
-/
namespace Avro.C19

open Avro Avro.Time

theorem inRange32_64 {d : Int} (h : inRange 32 d) : inRange 64 d := by
  unfold inRange at *; simp at *; omega

theorem readInt_write32 (d : Int) (hd : inRange 32 d) (rest : Bytes) :
    readInt 32 (writeInt 32 d ++ rest) = .ok (d, rest) := by
  unfold readInt writeInt
  rw [readVarint_write (inRange32_64 hd)]
  simp [hd]

theorem readInt_write64 (l : Int) (hl : inRange 64 l) (rest : Bytes) :
    readInt 64 (writeInt 64 l ++ rest) = .ok (l, rest) := by
  unfold readInt writeInt
  rw [readVarint_write hl]
  simp [hl]

/-- `time.Date(1970, 1, 1+l, 0, 0, 0, 0, UTC)` is `l` days after the epoch, for every integer `l` -/
theorem dateDecode_eq (l : Int) : dateDecode l = ⟨l * 86400, 0⟩ := by
  have h : daysFromCivil 1970 1 (1 + l) = l := by
    have e : daysBeforeYear 1970 + ((daysBeforeMonth 1970 1 : Nat) : Int) = 719528 := by decide
    unfold daysFromCivil; omega
  simp [dateDecode, goDateUnix, h]

/-- **Date, decode**: every int32 day count `d` — negative ones included — decodes to the
instant `d * 86400` seconds, i.e. midnight UTC `d` days from 1970-01-01. -/
theorem date_decode (d : Int) (hd : inRange 32 d) (rest : Bytes) :
    dateRead (writeInt 32 d ++ rest) = .ok (⟨d * 86400, 0⟩, rest) := by
  unfold dateRead
  simp [readInt_write32 d hd, dateDecode_eq]

/-- non-vacuity: day −1 is 1969-12-31, day −719528 is 0000-01-01, the int32 limits decode too -/
example : dateRead (writeInt 32 (-1)) = .ok (⟨-86400, 0⟩, []) := by
  simpa using date_decode (-1) (by decide) []
example : dateRead (writeInt 32 (-2147483648)) = .ok (⟨-185542587187200, 0⟩, []) := by
  simpa using date_decode (-2147483648) (by decide) []
example : dateRead (writeInt 32 2147483647) = .ok (⟨185542587100800, 0⟩, []) := by
  simpa using date_decode 2147483647 (by decide) []

/-- the instant `time.Unix(0, n)` denotes is `n` nanoseconds, in normal form -/
theorem ofUnixNano_nanos (n : Int) :
    (ofUnixNano n).nanos = n ∧ 0 ≤ (ofUnixNano n).nsec ∧ (ofUnixNano n).nsec < 1000000000 := by
  simp only [ofUnixNano, Instant.nanos]; omega

/-- **Long, decode**: for each of the three interpretations (nanoseconds, microseconds,
milliseconds), every long `l` whose instant `l * ρ` is representable in int64 nanoseconds decodes
to exactly that instant. -/
theorem long_decode (ρ : Res) (l : Int) (hl : inRange 64 l) (hr : inRange 64 (l * ρ.mult))
    (rest : Bytes) :
    longRead ρ.mult (writeInt 64 l ++ rest) = .ok (ofUnixNano (l * ρ.mult), rest) := by
  unfold longRead
  rw [readInt_write64 l hl]
  simp [longDecode, wrapS64_id hr]

/-- the same statement in terms of the nanosecond count of the result -/
theorem long_decode_nanos (ρ : Res) (l : Int) (hl : inRange 64 l) (hr : inRange 64 (l * ρ.mult))
    (rest : Bytes) :
    ∃ t, longRead ρ.mult (writeInt 64 l ++ rest) = .ok (t, rest) ∧ t.nanos = l * ρ.mult ∧
      0 ≤ t.nsec ∧ t.nsec < 1000000000 :=
  ⟨_, long_decode ρ l hl hr rest, ofUnixNano_nanos _⟩

/-- non-vacuity: −1 ms is 1969-12-31T23:59:59.999; −1 µs; −1 ns -/
example : longRead Res.ms.mult (writeInt 64 (-1)) = .ok (⟨-1, 999000000⟩, []) := by
  simpa [ofUnixNano, Res.mult] using long_decode .ms (-1) (by decide) (by decide) []
example : longRead Res.us.mult (writeInt 64 (-1)) = .ok (⟨-1, 999999000⟩, []) := by
  simpa [ofUnixNano, Res.mult] using long_decode .us (-1) (by decide) (by decide) []
example : longRead Res.ns.mult (writeInt 64 (-1)) = .ok (⟨-1, 999999999⟩, []) := by
  simpa [ofUnixNano, Res.mult] using long_decode .ns (-1) (by decide) (by decide) []

/-- Without the hypothesis the product wraps: 2^63/1000 + 1 microseconds decode to a time
before 1970 (shows the hypothesis of `long_decode` is needed, and that the model keeps the wrap). -/
theorem long_decode_wraps : (longDecode 1000 9223372036854776).nanos < 0 := by decide

/-! ## encode, then decode -/

theorem tdiv_day (s : Int) :
    Int.tdiv s 86400 = (if 0 ≤ s ∨ s % 86400 = 0 then s / 86400 else s / 86400 + 1) ∧
    Int.tmod s 86400 = (if 0 ≤ s ∨ s % 86400 = 0 then s % 86400 else s % 86400 - 86400) := by
  rw [Int.tdiv_eq_ediv, Int.tmod_eq_emod]
  simp only [Int.dvd_iff_emod_eq_zero]
  split <;> simp <;> omega

/-- `DateCodec.Write` stores the floor of seconds/86400 whenever that fits an int32 -/
theorem dateEncodeDay_floor (t : Instant) (hr : inRange 32 (t.sec / 86400)) :
    dateEncodeDay t = t.sec / 86400 := by
  obtain ⟨hd, hm⟩ := tdiv_day t.sec
  unfold dateEncodeDay
  rw [hd, hm]
  have hr' := hr
  unfold inRange at hr'; simp at hr'
  by_cases hc : 0 ≤ t.sec ∨ t.sec % 86400 = 0
  · simp only [hc, if_true]
    rw [if_neg (by omega), wrapS32_id hr]
  · simp only [hc, if_false]
    rw [if_pos (by omega)]
    have h1 : inRange 32 (t.sec / 86400 + 1) := by
      unfold inRange; simp
      have : t.sec < 0 := by omega
      omega
    rw [wrapS32_id h1]
    have : t.sec / 86400 + 1 - 1 = t.sec / 86400 := by omega
    rw [this, wrapS32_id hr]

/-- **Date, encode inverts**: writing any time whose day number fits an int32 and reading it
back gives the start of that UTC day — the floor, also for times before 1970. -/
theorem date_encode_inverts (t : Instant) (hr : inRange 32 (t.sec / 86400)) (rest : Bytes) :
    dateRead (dateWrite t ++ rest) = .ok (⟨t.sec / 86400 * 86400, 0⟩, rest) := by
  unfold dateWrite
  rw [dateEncodeDay_floor t hr]
  exact date_decode _ hr rest

/-- non-vacuity, before 1970: 1969-12-30T12:00:00 (−129600 s) is stored as day −2 and reads back as
1969-12-30T00:00:00 (−172800 s); truncation toward zero would give day −1 -/
example : dateEncodeDay ⟨-129600, 0⟩ = -2 := by decide
example : dateRead (dateWrite ⟨-129600, 5⟩) = .ok (⟨-172800, 0⟩, []) := by
  simpa using date_encode_inverts ⟨-129600, 5⟩ (by decide) []
example : dateRead (dateWrite ⟨129600, 5⟩) = .ok (⟨86400, 0⟩, []) := by
  simpa using date_encode_inverts ⟨129600, 5⟩ (by decide) []

/-- `LongCodec.Write` stores `floor(nanos / ρ)` whenever the floored instant is representable -/
theorem longEncode_floor (ρ : Res) (t : Instant)
    (hr : inRange 64 (floorNanos ρ.mult t)) : longEncode ρ.mult t = t.nanos / ρ.mult := by
  have hr' := hr
  unfold inRange at hr'; simp at hr'
  unfold floorNanos Instant.nanos at hr'
  unfold Instant.nanos
  cases ρ with
  | ns =>
    simp only [Res.mult] at hr' ⊢
    rw [show longEncode 1 t = wrapS 64 (t.sec * 1000000000 + t.nsec) by simp [longEncode]]
    rw [wrapS64_id (by unfold inRange; simp; omega)]; omega
  | us =>
    simp only [Res.mult] at hr' ⊢
    rw [show longEncode 1000 t = wrapS 64 (t.sec * 1000000 + t.nsec / 1000) by simp [longEncode]]
    rw [wrapS64_id (by unfold inRange; simp; omega)]; omega
  | ms =>
    simp only [Res.mult] at hr' ⊢
    rw [show longEncode 1000000 t = wrapS 64 (t.sec * 1000 + t.nsec / 1000000) by simp [longEncode]]
    rw [wrapS64_id (by unfold inRange; simp; omega)]; omega

/-- **Long, encode inverts**: for each of the three interpretations, writing any time `t`
(before or after 1970) whose floor to the resolution is representable in int64 nanoseconds and
reading it back yields `t` rounded down to that resolution.  (A Go `time.Time` always has
`0 ≤ nsec < 10^9`; the statement does not even need that.) -/
theorem long_encode_inverts (ρ : Res) (t : Instant)
    (hr : inRange 64 (floorNanos ρ.mult t)) (rest : Bytes) :
    longRead ρ.mult (longWrite ρ.mult t ++ rest) = .ok (ofUnixNano (floorNanos ρ.mult t), rest) := by
  unfold longWrite
  rw [longEncode_floor ρ t hr]
  have hl : inRange 64 (t.nanos / ρ.mult) := by
    have hr' := hr
    unfold inRange at hr' ⊢; simp at hr' ⊢
    unfold floorNanos at hr'
    cases ρ <;> simp only [Res.mult] at hr' ⊢ <;> omega
  exact long_decode ρ _ hl hr rest

/-- The property's clause in one statement: `decode ρ (encode ρ t) = floor of t to resolution ρ`
for the date type and the three long types. -/
theorem encode_inverts :
    (∀ (t : Instant) (rest : Bytes), inRange 32 (t.sec / 86400) →
      dateRead (dateWrite t ++ rest) = .ok (⟨t.sec / 86400 * 86400, 0⟩, rest)) ∧
    (∀ (ρ : Res) (t : Instant) (rest : Bytes),
      inRange 64 (floorNanos ρ.mult t) →
      longRead ρ.mult (longWrite ρ.mult t ++ rest) = .ok (ofUnixNano (floorNanos ρ.mult t), rest)) :=
  ⟨fun t rest h => date_encode_inverts t h rest, fun ρ t rest hr => long_encode_inverts ρ t hr rest⟩

/-- at nanosecond resolution nothing is lost -/
theorem long_ns_exact (t : Instant) (hn : 0 ≤ t.nsec ∧ t.nsec < 1000000000)
    (hr : inRange 64 t.nanos) (rest : Bytes) :
    longRead 1 (longWrite 1 t ++ rest) = .ok (t, rest) := by
  have hf : floorNanos Res.ns.mult t = t.nanos := by simp [floorNanos, Res.mult]
  have := long_encode_inverts .ns t (by rw [hf]; exact hr) rest
  rw [hf] at this
  simp only [Res.mult] at this
  rw [this]
  obtain ⟨s, n⟩ := t
  simp only [ofUnixNano, Instant.nanos] at hn ⊢
  have h1 : (s * 1000000000 + n) / 1000000000 = s := by omega
  have h2 : (s * 1000000000 + n) % 1000000000 = n := by omega
  rw [h1, h2]

/-- non-vacuity, before 1970 with a sub-resolution part: 1969-12-31T23:59:59.9999995 is stored as
−1 ms / −1 µs and reads back as …59.999 / …59.999999 (floor, not truncation toward zero) -/
example : longEncode Res.ms.mult ⟨-1, 999999500⟩ = -1 := by decide
example : longRead Res.ms.mult (longWrite Res.ms.mult ⟨-1, 999999500⟩) = .ok (⟨-1, 999000000⟩, []) := by
  simpa [ofUnixNano, floorNanos, Instant.nanos, Res.mult]
    using long_encode_inverts .ms ⟨-1, 999999500⟩ (by decide) []
example : longRead Res.us.mult (longWrite Res.us.mult ⟨-1, 999999500⟩) = .ok (⟨-1, 999999000⟩, []) := by
  simpa [ofUnixNano, floorNanos, Instant.nanos, Res.mult]
    using long_encode_inverts .us ⟨-1, 999999500⟩ (by decide) []
example : longRead Res.ms.mult (longWrite Res.ms.mult ⟨1, 999999500⟩) = .ok (⟨1, 999000000⟩, []) := by
  simpa [ofUnixNano, floorNanos, Instant.nanos, Res.mult]
    using long_encode_inverts .ms ⟨1, 999999500⟩ (by decide) []

end Avro.C19
